package c15

// Generic PLY streams: fileformats.PLYWriter -> fileformats.PLYReader for arbitrary
// headers.  A case is pure data: every scalar is stored as a raw uint64 that is
// truncated to the declared type (two's complement for integers, IEEE bit pattern for
// floats), so every uint64 is a valid value and NaN payloads survive JSON.

import (
	"bytes"
	"encoding/binary"
	"errors"
	"fmt"
	"io"
	"math"
	"math/big"
	"strconv"
	"strings"

	ff "github.com/unixpickle/model3d/fileformats"
	"pgregory.net/rapid"
	"verifharness/kit"
)

type plyProp struct {
	Name string `json:"name"`
	Type int    `json:"type"`          // index into plyTypes
	Len  int    `json:"len,omitempty"` // 0: scalar; otherwise 1+index into plyTypes[:12] (the list-length type)
}

type plyElem struct {
	Name  string       `json:"name"`
	Props []plyProp    `json:"props"`
	Rows  [][][]uint64 `json:"rows"` // Rows[r][p]: one raw value for a scalar, the list items for a list
}

type plyCase struct {
	Format int       `json:"format"` // 0 ascii, 1 binary little endian, 2 binary big endian
	Elems  []plyElem `json:"elems"`
	Chunk  int       `json:"chunk,omitempty"`
}

type plyKind int

const (
	kI8 plyKind = iota
	kU8
	kI16
	kU16
	kI32
	kU32
	kF32
	kF64
)

// every type name the format knows, aliases included; the first 12 are integral and
// may be used as list-length types (a float cannot express a length)
var plyTypes = []struct {
	name string
	kind plyKind
}{
	{"char", kI8}, {"int8", kI8}, {"uchar", kU8}, {"uint8", kU8},
	{"short", kI16}, {"int16", kI16}, {"ushort", kU16}, {"uint16", kU16},
	{"int", kI32}, {"int32", kI32}, {"uint", kU32}, {"uint32", kU32},
	{"float", kF32}, {"float32", kF32}, {"double", kF64}, {"float64", kF64},
}

const nLenTypes = 12

func (k plyKind) size() int { return [...]int{1, 1, 2, 2, 4, 4, 4, 8}[k] }

// maxLen is the largest list length the length type can express (negative lengths are
// not lengths).
func (k plyKind) maxLen() int {
	return [...]int{127, 255, 32767, 65535, math.MaxInt32, math.MaxUint32, 0, 0}[k]
}

// trunc reduces a raw value to the bits the type holds.
func (k plyKind) trunc(raw uint64) uint64 {
	switch k.size() {
	case 1:
		return raw & 0xff
	case 2:
		return raw & 0xffff
	case 4:
		return raw & 0xffffffff
	}
	return raw
}

// value builds the library value for a raw scalar.
func (k plyKind) value(raw uint64) ff.PLYValue {
	switch k {
	case kI8:
		return ff.PLYValueInt8{Value: int8(raw)}
	case kU8:
		return ff.PLYValueUint8{Value: uint8(raw)}
	case kI16:
		return ff.PLYValueInt16{Value: int16(raw)}
	case kU16:
		return ff.PLYValueUint16{Value: uint16(raw)}
	case kI32:
		return ff.PLYValueInt32{Value: int32(raw)}
	case kU32:
		return ff.PLYValueUint32{Value: uint32(raw)}
	case kF32:
		return ff.PLYValueFloat32{Value: math.Float32frombits(uint32(raw))}
	default:
		return ff.PLYValueFloat64{Value: math.Float64frombits(raw)}
	}
}

// rawOf extracts (kind, raw bits) from a library value; ok=false for an unexpected type.
func rawOf(v ff.PLYValue) (plyKind, uint64, bool) {
	switch x := v.(type) {
	case ff.PLYValueInt8:
		return kI8, uint64(uint8(x.Value)), true
	case ff.PLYValueUint8:
		return kU8, uint64(x.Value), true
	case ff.PLYValueInt16:
		return kI16, uint64(uint16(x.Value)), true
	case ff.PLYValueUint16:
		return kU16, uint64(x.Value), true
	case ff.PLYValueInt32:
		return kI32, uint64(uint32(x.Value)), true
	case ff.PLYValueUint32:
		return kU32, uint64(x.Value), true
	case ff.PLYValueFloat32:
		return kF32, uint64(math.Float32bits(x.Value)), true
	case ff.PLYValueFloat64:
		return kF64, math.Float64bits(x.Value), true
	}
	return 0, 0, false
}

func isNaNRaw(k plyKind, raw uint64) bool {
	switch k {
	case kF32:
		return math.Float32frombits(uint32(raw)) != math.Float32frombits(uint32(raw))
	case kF64:
		return math.IsNaN(math.Float64frombits(raw))
	}
	return false
}

// sameScalar compares a value read back with the raw value written.  Binary encodings
// carry the bit pattern, so even NaN payloads must survive; the ASCII encoding carries
// a decimal numeral, which identifies every non-NaN value exactly (including -0 and
// +-Inf as written by the writer) but has a single spelling for NaN.
func sameScalar(k plyKind, want uint64, got ff.PLYValue, ascii bool) error {
	gk, graw, ok := rawOf(got)
	if !ok {
		return fmt.Errorf("value of unexpected Go type %T", got)
	}
	if gk != k {
		return fmt.Errorf("value has Go type %T, which does not match the declared property type", got)
	}
	want = k.trunc(want)
	if graw == want {
		return nil
	}
	if ascii && isNaNRaw(k, want) && isNaNRaw(k, graw) {
		return nil
	}
	return fmt.Errorf("wrote %s (bits %#x), read back %s (bits %#x)", describe(k, want), want, describe(k, graw), graw)
}

func describe(k plyKind, raw uint64) string {
	switch k {
	case kI8:
		return strconv.Itoa(int(int8(raw)))
	case kI16:
		return strconv.Itoa(int(int16(raw)))
	case kI32:
		return strconv.Itoa(int(int32(raw)))
	case kF32:
		return strconv.FormatFloat(float64(math.Float32frombits(uint32(raw))), 'g', -1, 32)
	case kF64:
		return strconv.FormatFloat(math.Float64frombits(raw), 'g', -1, 64)
	}
	return strconv.FormatUint(raw, 10)
}

// ---------------------------------------------------------------------------
// generator

var plyNamePool = []string{"vertex", "face", "edge", "x", "y", "z", "red", "vertex_index", "vertex_indices",
	"comment", "element", "property", "list", "format", "ply", "obj_info", "material", "0", "end", "header"}

const plyNameAlphabet = "abcxyzXYZ019_-.#"

// genPLYName draws an element / property name: a whitespace-free token.  Names that end
// in "end_header" are a class of their own (a header reader that looks for the terminator
// as a suffix instead of a line stops early: replay fixed-ply-name-end-header).
func genPLYName(t *rapid.T, label string) string {
	switch k := rapid.IntRange(0, 19).Draw(t, label+".kind"); {
	case k < 8:
		return rapid.SampledFrom(plyNamePool).Draw(t, label+".pool")
	case k == 8:
		return rapid.SampledFrom([]string{"end_header", "xend_header", "my_end_header"}).Draw(t, label+".eh")
	default:
		n := rapid.IntRange(1, 8).Draw(t, label+".len")
		b := make([]byte, n)
		for i := range b {
			b[i] = plyNameAlphabet[rapid.IntRange(0, len(plyNameAlphabet)-1).Draw(t, label+".ch")]
		}
		return string(b)
	}
}

var f32Bits = []uint64{0, 0x80000000, 0x3f800000, 0xbf800000, 0x00000001, 0x807fffff, 0x00800000, 0x7f7fffff, 0xff7fffff,
	0x7f800000, 0xff800000, 0x7fc00000, 0xffc00000, 0x7fc12345, 0x7f800001 /* signalling */, 0x3dcccccd /* 0.1f */, 0x3f800001, 0x4b800001, 0x501502f9 /* 1e10 */}

var f64Bits = []uint64{0, 0x8000000000000000, 0x3ff0000000000000, 0x0000000000000001, 0x800fffffffffffff, 0x0010000000000000,
	0x7fefffffffffffff, 0xffefffffffffffff, 0x7ff0000000000000, 0xfff0000000000000, 0x7ff8000000000000, 0x7ff8000000000001,
	0xfff8000000000000, 0x7ff800000000beef, 0x7ff0000000000001 /* signalling */, 0x3fb999999999999a /* 0.1 */, 0x3fd5555555555555, 0x4415af1d78b58c40 /* 1e20 */, 0x3ff0000000000001}

func genRaw(t *rapid.T, k plyKind, label string) uint64 {
	switch k {
	case kF32:
		switch rapid.IntRange(0, 3).Draw(t, label+".f") {
		case 0:
			return rapid.SampledFrom(f32Bits).Draw(t, label+".special")
		case 1:
			return uint64(math.Float32bits(float32(rapid.Float64Range(-1000, 1000).Draw(t, label+".val"))))
		default:
			return uint64(rapid.Uint32().Draw(t, label+".bits"))
		}
	case kF64:
		switch rapid.IntRange(0, 3).Draw(t, label+".f") {
		case 0:
			return rapid.SampledFrom(f64Bits).Draw(t, label+".special")
		case 1:
			return math.Float64bits(rapid.Float64Range(-1000, 1000).Draw(t, label+".val"))
		default:
			return rapid.Uint64().Draw(t, label+".bits")
		}
	}
	// integers: boundaries of every width, sign-extended so that truncation keeps them
	switch rapid.IntRange(0, 2).Draw(t, label+".i") {
	case 0:
		return rapid.SampledFrom([]uint64{0, 1, 2, 0x7f, 0x80, 0xff, 0x7fff, 0x8000, 0xffff, 0x7fffffff, 0x80000000, 0xffffffff,
			^uint64(0), 0xfffffffffffffffe, 10, 100}).Draw(t, label+".edge")
	case 1:
		return uint64(rapid.IntRange(-200, 200).Draw(t, label+".small"))
	default:
		return rapid.Uint64().Draw(t, label+".bits")
	}
}

func genListLen(t *rapid.T, lk plyKind, label string) int {
	switch k := rapid.IntRange(0, 29).Draw(t, label+".lenkind"); {
	case k < 5:
		return 0
	case k == 5: // the limit of an 8-bit length field
		if lk == kI8 {
			return 127
		}
		if lk == kU8 {
			return 255
		}
		return rapid.SampledFrom([]int{127, 128, 255, 256}).Draw(t, label+".edge")
	case k == 6 && lk != kI8 && lk != kU8:
		return rapid.SampledFrom([]int{128, 255, 256, 1023, 1024, 1025, 4096}).Draw(t, label+".edge")
	default:
		m := 6
		if lk.maxLen() < m {
			m = lk.maxLen()
		}
		return rapid.IntRange(1, m).Draw(t, label+".len")
	}
}

func genPLY(t *rapid.T) plyCase {
	c := plyCase{Format: rapid.IntRange(0, 2).Draw(t, "format"), Chunk: genChunk(t)}
	ne := rapid.IntRange(1, 4).Draw(t, "nelems")
	if oneIn(t, 30, "noelems") {
		ne = 0
	}
	for e := 0; e < ne; e++ {
		el := plyElem{Name: genPLYName(t, fmt.Sprintf("e%d.name", e))}
		np := rapid.IntRange(1, 4).Draw(t, "nprops")
		for p := 0; p < np; p++ {
			pr := plyProp{Name: genPLYName(t, fmt.Sprintf("e%d.p%d.name", e, p)), Type: rapid.IntRange(0, len(plyTypes)-1).Draw(t, "type")}
			if rapid.IntRange(0, 2).Draw(t, "islist") == 0 {
				pr.Len = 1 + rapid.IntRange(0, nLenTypes-1).Draw(t, "lentype")
			}
			el.Props = append(el.Props, pr)
		}
		nr := 0
		if rapid.IntRange(0, 3).Draw(t, "nonempty") != 0 { // a quarter of the elements have a count of zero
			nr = rapid.IntRange(1, 5).Draw(t, "nrows")
		}
		for r := 0; r < nr; r++ {
			row := make([][]uint64, np)
			for p, pr := range el.Props {
				k := plyTypes[pr.Type].kind
				n := 1
				if pr.Len != 0 {
					n = genListLen(t, plyTypes[pr.Len-1].kind, "list")
				}
				row[p] = make([]uint64, n)
				for i := range row[p] {
					row[p][i] = k.trunc(genRaw(t, k, "v"))
				}
			}
			el.Rows = append(el.Rows, row)
		}
		c.Elems = append(c.Elems, el)
	}
	return c
}

// valid checks a (replayed) case for well-formedness.
func (c plyCase) valid() error {
	bad := func(f string, a ...any) error { return fmt.Errorf("%w: "+f, append([]any{kit.ErrInfra}, a...)...) }
	if c.Format < 0 || c.Format > 2 {
		return bad("format %d", c.Format)
	}
	for _, el := range c.Elems {
		if len(el.Props) == 0 {
			return bad("element without properties (rejected by the reader by design)")
		}
		if el.Name == "" || strings.ContainsAny(el.Name, " \t\r\n\v\f") {
			return bad("element name %q is not a token", el.Name)
		}
		for _, p := range el.Props {
			if p.Name == "" || strings.ContainsAny(p.Name, " \t\r\n\v\f") {
				return bad("property name %q is not a token", p.Name)
			}
			if p.Type < 0 || p.Type >= len(plyTypes) || p.Len < 0 || p.Len > nLenTypes {
				return bad("type index out of range")
			}
		}
		for _, row := range el.Rows {
			if len(row) != len(el.Props) {
				return bad("row width %d != %d properties", len(row), len(el.Props))
			}
			for i, p := range el.Props {
				if p.Len == 0 && len(row[i]) != 1 {
					return bad("scalar with %d values", len(row[i]))
				}
				if p.Len != 0 && len(row[i]) > plyTypes[p.Len-1].kind.maxLen() {
					return bad("list of %d items does not fit length type %s", len(row[i]), plyTypes[p.Len-1].name)
				}
			}
		}
	}
	return nil
}

func (c plyCase) hasEndHeaderName() bool {
	for _, el := range c.Elems {
		// only property lines can end in the name (element lines end in the count)
		for _, p := range el.Props {
			if strings.HasSuffix(p.Name, "end_header") {
				return true
			}
		}
	}
	return false
}

// ---------------------------------------------------------------------------
// independent encoder / decoder for the body (the PLY specification: rows in header
// order; binary = the scalars back to back in the declared byte order, a list being its
// length followed by its items; ASCII = one row per line, numerals separated by blanks)

func putRaw(buf *bytes.Buffer, k plyKind, raw uint64, order binary.ByteOrder) {
	var b [8]byte
	switch k.size() {
	case 1:
		buf.WriteByte(byte(raw))
	case 2:
		order.PutUint16(b[:], uint16(raw))
		buf.Write(b[:2])
	case 4:
		order.PutUint32(b[:], uint32(raw))
		buf.Write(b[:4])
	default:
		order.PutUint64(b[:], raw)
		buf.Write(b[:8])
	}
}

func (c plyCase) binaryBody() []byte {
	var order binary.ByteOrder = binary.LittleEndian
	if c.Format == 2 {
		order = binary.BigEndian
	}
	var buf bytes.Buffer
	for _, el := range c.Elems {
		for _, row := range el.Rows {
			for i, p := range el.Props {
				k := plyTypes[p.Type].kind
				if p.Len != 0 {
					putRaw(&buf, plyTypes[p.Len-1].kind, uint64(len(row[i])), order)
				}
				for _, raw := range row[i] {
					putRaw(&buf, k, raw, order)
				}
			}
		}
	}
	return buf.Bytes()
}

// parseNumeral decodes an ASCII numeral of the given kind exactly (math/big for floats:
// the nearest float of the decimal numeral, ties to even).
func parseNumeral(k plyKind, s string) (raw uint64, nan bool, err error) {
	switch k {
	case kF32, kF64:
		switch strings.ToLower(strings.TrimLeft(s, "+-")) {
		case "nan":
			return 0, true, nil
		case "inf", "infinity":
			v := math.Inf(1)
			if strings.HasPrefix(s, "-") {
				v = math.Inf(-1)
			}
			if k == kF32 {
				return uint64(math.Float32bits(float32(v))), false, nil
			}
			return math.Float64bits(v), false, nil
		}
		r, ok := new(big.Rat).SetString(s)
		if !ok {
			return 0, false, fmt.Errorf("%q is not a decimal numeral", s)
		}
		neg := strings.HasPrefix(s, "-")
		if k == kF32 {
			f, _ := r.Float32()
			if f == 0 && neg {
				f = float32(math.Copysign(0, -1))
			}
			return uint64(math.Float32bits(f)), false, nil
		}
		f, _ := r.Float64()
		if f == 0 && neg {
			f = math.Copysign(0, -1)
		}
		return math.Float64bits(f), false, nil
	}
	n, ok := new(big.Int).SetString(s, 10)
	if !ok {
		return 0, false, fmt.Errorf("%q is not an integer numeral", s)
	}
	lo, hi := big.NewInt(0), new(big.Int).Lsh(big.NewInt(1), uint(8*k.size()))
	if k == kI8 || k == kI16 || k == kI32 {
		half := new(big.Int).Rsh(hi, 1)
		lo, hi = new(big.Int).Neg(half), half
	}
	if n.Cmp(lo) < 0 || n.Cmp(hi) >= 0 {
		return 0, false, fmt.Errorf("numeral %s is out of range for the declared type", s)
	}
	return k.trunc(uint64(n.Int64())), false, nil
}

// checkASCIIBody verifies the writer's ASCII body against the case with the harness's
// own tokenizer.
func (c plyCase) checkASCIIBody(body string) error {
	lines := strings.Split(body, "\n")
	if len(lines) > 0 && lines[len(lines)-1] == "" {
		lines = lines[:len(lines)-1]
	} else if body != "" {
		return fmt.Errorf("ASCII body does not end with a newline")
	}
	li := 0
	for ei, el := range c.Elems {
		for ri, row := range el.Rows {
			if li >= len(lines) {
				return fmt.Errorf("ASCII body has %d lines, fewer than the declared rows", len(lines))
			}
			toks := strings.Fields(lines[li])
			li++
			ti := 0
			next := func() (string, error) {
				if ti >= len(toks) {
					return "", fmt.Errorf("element %d row %d: line %q has too few numerals", ei, ri, lines[li-1])
				}
				ti++
				return toks[ti-1], nil
			}
			for i, p := range el.Props {
				k := plyTypes[p.Type].kind
				if p.Len != 0 {
					s, err := next()
					if err != nil {
						return err
					}
					n, _, err := parseNumeral(plyTypes[p.Len-1].kind, s)
					if err != nil {
						return fmt.Errorf("element %d row %d: list length: %v", ei, ri, err)
					}
					if int(n) != len(row[i]) {
						return fmt.Errorf("element %d row %d property %d: written list length %d, want %d", ei, ri, i, n, len(row[i]))
					}
				}
				for j, want := range row[i] {
					s, err := next()
					if err != nil {
						return err
					}
					got, nan, err := parseNumeral(k, s)
					if err != nil {
						return fmt.Errorf("element %d row %d: %v", ei, ri, err)
					}
					if nan {
						if !isNaNRaw(k, want) {
							return fmt.Errorf("element %d row %d property %d item %d: wrote NaN for %s", ei, ri, i, j, describe(k, want))
						}
						continue
					}
					if got != want {
						return fmt.Errorf("element %d row %d property %d item %d: numeral %q denotes %s, the value written was %s (bits %#x)",
							ei, ri, i, j, s, describe(k, got), describe(k, want), want)
					}
				}
			}
			if ti != len(toks) {
				return fmt.Errorf("element %d row %d: line %q has extra numerals", ei, ri, lines[li-1])
			}
		}
	}
	if li != len(lines) {
		return fmt.Errorf("ASCII body has %d lines for %d rows", len(lines), li)
	}
	return nil
}

// ---------------------------------------------------------------------------
// the check

func (c plyCase) header() *ff.PLYHeader {
	h := &ff.PLYHeader{Format: []ff.PLYFormat{ff.PLYFormatASCII, ff.PLYFormatBinaryLittle, ff.PLYFormatBinaryBig}[c.Format]}
	for _, el := range c.Elems {
		e := &ff.PLYElement{Name: el.Name, Count: int64(len(el.Rows))}
		for _, p := range el.Props {
			pp := &ff.PLYProperty{Name: p.Name, ElemType: ff.PLYPropertyType(plyTypes[p.Type].name)}
			if p.Len != 0 {
				pp.LenType = ff.PLYPropertyType(plyTypes[p.Len-1].name)
			}
			e.Properties = append(e.Properties, pp)
		}
		h.Elements = append(h.Elements, e)
	}
	return h
}

// countingWriter is the "underlying writer": what has reached it is exactly what a
// consumer of the file can see.
type countingWriter struct {
	buf    bytes.Buffer
	writes int
}

func (w *countingWriter) Write(p []byte) (int, error) {
	w.writes++
	return w.buf.Write(p)
}

func checkPLY(c plyCase, o *kit.Obs) error {
	if err := c.valid(); err != nil {
		return err
	}
	if c.hasEndHeaderName() {
		o.Label("name:ends-in-end_header")
	}
	ascii := c.Format == 0
	o.Label([]string{"format:ascii", "format:little", "format:big"}[c.Format])
	rows, zero, lists := 0, 0, 0
	for i, el := range c.Elems {
		rows += len(el.Rows)
		if len(el.Rows) == 0 {
			zero++
			if i == len(c.Elems)-1 {
				o.Label("zero-count:trailing")
			} else if i == 0 {
				o.Label("zero-count:leading")
			} else {
				o.Label("zero-count:middle")
			}
		}
		for pi, p := range el.Props {
			o.Label("type:" + plyTypes[p.Type].name)
			if p.Len != 0 {
				lists++
				o.Label("lentype:" + plyTypes[p.Len-1].name)
			}
			k := plyTypes[p.Type].kind
			for _, row := range el.Rows {
				if pi >= len(row) {
					continue
				}
				if p.Len != 0 {
					switch n := len(row[pi]); {
					case n == 0:
						o.Label("list:empty")
					case n == plyTypes[p.Len-1].kind.maxLen():
						o.Label("list:at-length-type-limit")
					case n >= 127:
						o.Label("list:long")
					}
				}
				for _, raw := range row[pi] {
					if isNaNRaw(k, raw) {
						o.Label("value:nan")
					} else if k == kF32 && uint32(raw)&0x7fffffff == 0x7f800000 || k == kF64 && raw&^(1<<63) == 0x7ff0000000000000 {
						o.Label("value:inf")
					} else if k == kF32 && uint32(raw) == 0x80000000 || k == kF64 && raw == 1<<63 {
						o.Label("value:neg-zero")
					}
				}
			}
		}
	}
	if rows > 0 {
		o.NonTrivial()
	}
	if len(c.Elems) == 0 {
		o.Label("no-elements")
	}
	if lists > 0 {
		o.Label("has-list")
	}
	if zero > 0 && rows > 0 {
		o.Label("zero-count+rows")
	}

	// ---- write
	hdr := c.header()
	w := &countingWriter{}
	pw, err := ff.NewPLYWriter(w, hdr)
	if err != nil {
		return fmt.Errorf("NewPLYWriter: %v", err)
	}
	for ei, el := range c.Elems {
		for ri, row := range el.Rows {
			fields := make([]ff.PLYValue, len(el.Props))
			for i, p := range el.Props {
				k := plyTypes[p.Type].kind
				if p.Len == 0 {
					fields[i] = k.value(row[i][0])
					continue
				}
				vals := make([]ff.PLYValue, len(row[i]))
				for j, raw := range row[i] {
					vals[j] = k.value(raw)
				}
				fields[i] = ff.PLYValueList{Length: plyTypes[p.Len-1].kind.value(uint64(len(row[i]))), Values: vals}
			}
			if err := pw.Write(fields); err != nil {
				return fmt.Errorf("PLYWriter.Write(element %d %q, row %d): %v", ei, el.Name, ri, err)
			}
		}
	}
	// "the full file will always be flushed by the time the last element is written":
	// from here on only the bytes that reached the underlying writer count.
	data := append([]byte(nil), w.buf.Bytes()...)

	// ---- the body against the specification
	const endHeader = "end_header\n"
	idx := bytes.Index(data, []byte("\n"+endHeader))
	if idx < 0 {
		return fmt.Errorf("written file has no end_header line (%d bytes reached the underlying writer)", len(data))
	}
	// (names cannot contain a newline, so the first line that IS "end_header" is the terminator)
	body := data[idx+1+len(endHeader):]
	if !strings.HasPrefix(string(data), "ply\n") {
		return fmt.Errorf("written file does not start with the magic line \"ply\"")
	}
	if ascii {
		if err := c.checkASCIIBody(string(body)); err != nil {
			return fmt.Errorf("ASCII body written by PLYWriter (after its last row, %d bytes had reached the underlying writer): %v", len(data), err)
		}
	} else if want := c.binaryBody(); !bytes.Equal(body, want) {
		if len(body) < len(want) && bytes.Equal(body, want[:len(body)]) {
			return fmt.Errorf("after the last row only %d of the %d body bytes have reached the underlying writer (missing final flush)", len(body), len(want))
		}
		return fmt.Errorf("binary body written by PLYWriter differs from the declared layout (%s): got % x want % x",
			[]string{"", "little endian", "big endian"}[c.Format], clip(body), clip(want))
	}

	// ---- read back
	pr, err := ff.NewPLYReader(newReader(data, c.Chunk))
	if err != nil {
		return fmt.Errorf("NewPLYReader on the written file: %v", err)
	}
	hdrCounts := make([]int64, len(hdr.Elements))
	for i, e := range hdr.Elements {
		hdrCounts[i] = e.Count
	}
	got := pr.Header()
	if got.Format != hdr.Format {
		return fmt.Errorf("header format: wrote %v, read %v", hdr.Format, got.Format)
	}
	if len(got.Elements) != len(hdr.Elements) {
		return fmt.Errorf("header declares %d elements, read back %d", len(hdr.Elements), len(got.Elements))
	}
	for i, e := range hdr.Elements {
		g := got.Elements[i]
		if g == nil || g.Name != e.Name || g.Count != e.Count || len(g.Properties) != len(e.Properties) {
			return fmt.Errorf("element %d: wrote %q count %d with %d properties, read back %+v", i, e.Name, e.Count, len(e.Properties), g)
		}
		for j, p := range e.Properties {
			if g.Properties[j] == nil || *g.Properties[j] != *p {
				return fmt.Errorf("element %d property %d: wrote %+v, read back %+v", i, j, *p, g.Properties[j])
			}
		}
	}
	for ei, el := range c.Elems {
		for ri, row := range el.Rows {
			vals, gel, err := pr.Read()
			if err != nil {
				return fmt.Errorf("reading element %d %q (count %d) row %d: %v", ei, el.Name, len(el.Rows), ri, err)
			}
			if gel != got.Elements[ei] && (gel == nil || gel.Name != el.Name || len(gel.Properties) != len(el.Props)) {
				return fmt.Errorf("element %d row %d: reader attributes the row to element %+v", ei, ri, gel)
			}
			if len(vals) != len(el.Props) {
				return fmt.Errorf("element %d row %d: %d values for %d properties", ei, ri, len(vals), len(el.Props))
			}
			// the element that comes with a row, and the header, describe the file: the declared count stays
			if gel != nil && gel.Count != int64(len(el.Rows)) {
				return fmt.Errorf("element %d row %d: the element returned with the row declares %d rows, the file declares %d", ei, ri, gel.Count, len(el.Rows))
			}
			for i, p := range el.Props {
				k := plyTypes[p.Type].kind
				if p.Len == 0 {
					if err := sameScalar(k, row[i][0], vals[i], ascii); err != nil {
						return fmt.Errorf("element %d row %d property %d (%s): %v", ei, ri, i, plyTypes[p.Type].name, err)
					}
					continue
				}
				l, ok := vals[i].(ff.PLYValueList)
				if !ok {
					return fmt.Errorf("element %d row %d property %d: list property read back as %T", ei, ri, i, vals[i])
				}
				if err := sameScalar(plyTypes[p.Len-1].kind, uint64(len(row[i])), l.Length, ascii); err != nil {
					return fmt.Errorf("element %d row %d property %d: list length (%s): %v", ei, ri, i, plyTypes[p.Len-1].name, err)
				}
				if len(l.Values) != len(row[i]) {
					return fmt.Errorf("element %d row %d property %d: list of %d items read back with %d", ei, ri, i, len(row[i]), len(l.Values))
				}
				for j, raw := range row[i] {
					if err := sameScalar(k, raw, l.Values[j], ascii); err != nil {
						return fmt.Errorf("element %d row %d property %d item %d (%s): %v", ei, ri, i, j, plyTypes[p.Type].name, err)
					}
				}
			}
		}
	}
	for k := 0; k < 2; k++ {
		vals, gel, err := pr.Read()
		if !errors.Is(err, io.EOF) {
			return fmt.Errorf("after the %d declared rows Read returned (%v, %v, %v), want io.EOF", rows, vals, gel, err)
		}
	}
	// a converter builds its writer from the reader's header, before or after reading: it still describes the file
	after := pr.Header()
	if len(after.Elements) != len(hdr.Elements) {
		return fmt.Errorf("after reading, Header() declares %d elements, the file %d", len(after.Elements), len(hdr.Elements))
	}
	for i, e := range hdr.Elements {
		if g := after.Elements[i]; g == nil || g.Name != e.Name || g.Count != e.Count {
			return fmt.Errorf("after reading, Header() element %d is %+v, the file declares %q with %d rows", i, g, e.Name, e.Count)
		}
		if e.Count != hdrCounts[i] {
			return fmt.Errorf("reading changed the header that was handed to the writer: element %d count %d -> %d", i, hdrCounts[i], e.Count)
		}
	}
	return nil
}

func clip(b []byte) []byte {
	if len(b) > 48 {
		return b[:48]
	}
	return b
}

// silence unused warnings for rapid in files that only use it through helpers
var _ = rapid.Bool
