package c15

import (
	"bytes"
	"encoding/binary"
	"fmt"
	"math"
	"runtime"
	"sort"
	"testing"

	"github.com/unixpickle/model3d/model2d"
	"github.com/unixpickle/model3d/model3d"
	"pgregory.net/rapid"
	"verifharness/kit"
)

const rule = "meshes: a vertex pool (coordinates from the classes float32-exact, not float32-representable incl. exact ties, huge up to 3e38, float32-subnormal, below the smallest subnormal, +0/-0, near-duplicates colliding after rounding, exact duplicates) plus index triples (empty, single face, shared / duplicated vertices, degenerate faces), through every API variant and with readers that return 1..513 bytes per call; generic PLY: random headers (0-4 elements, counts 0-5 with zero counts anywhere, 1-4 scalar/list properties over all 16 type names and all 12 list-length type names, list lengths 0..4096 incl. the limits of 8-bit length fields, three encodings), values as raw bit patterns (integer limits, NaN payloads, infinities, subnormals); text: harness-written ASCII STL / OFF in randomised styles; exporters: the same meshes with pure colour functions. Non-trivial: at least one face / segment / row is written and read back. Distinct: hash of the JSON case."

// ---------------------------------------------------------------------------
// binary STL

func genSTL(t *rapid.T) meshCase {
	c := genMesh(t, true)
	c.API = rapid.SampledFrom([]string{"encode", "write", "spec-file"}).Draw(t, "api")
	c.Chunk = genChunk(t)
	c.Style = rapid.Uint32().Draw(t, "style")
	return c
}

// specSTL writes a binary STL file per the format: 80-byte header, uint32 count (little
// endian), then 50-byte records: normal, three vertices (12 float32 LE), 2 attribute bytes.
func specSTL(c meshCase) []byte {
	s := &styler{seed: uint64(c.Style)}
	header := make([]byte, 80)
	switch s.pick(4) {
	case 1:
		copy(header, "binary STL written by the verification harness")
	case 2:
		// many exporters start binary files with "solid" (the reason for the reader's sniffing)
		copy(header, bytes.Repeat([]byte{' '}, 80))
		copy(header, "solid exported-binary")
	case 3:
		for i := range header {
			header[i] = byte(mixU64(uint64(c.Style), uint64(i)))
		}
		header[0] = 0xff // never ASCII
	}
	var buf bytes.Buffer
	buf.Write(header)
	binary.Write(&buf, binary.LittleEndian, uint32(len(c.Faces)))
	for _, f := range c.Faces {
		var rec [50]byte
		nrm := [3]float32{0, 0, 1}
		if s.pick(2) == 0 {
			nrm = [3]float32{float32(math.NaN()), 0, -1}
		}
		for a := 0; a < 3; a++ {
			binary.LittleEndian.PutUint32(rec[4*a:], math.Float32bits(nrm[a]))
		}
		for k, idx := range f {
			for a, x := range c.Verts[idx] {
				binary.LittleEndian.PutUint32(rec[12+12*k+4*a:], math.Float32bits(float32(x)))
			}
		}
		buf.Write(rec[:])
	}
	return buf.Bytes()
}

func checkSTL(c meshCase, o *kit.Obs) error {
	if err := c.valid(); err != nil {
		return err
	}
	c.label(o)
	o.Label("api:" + c.API)
	tris := c.tris()
	var data []byte
	switch c.API {
	case "encode":
		data = model3d.EncodeSTL(tris)
	case "write":
		var buf bytes.Buffer
		if err := model3d.WriteSTL(&buf, tris); err != nil {
			return fmt.Errorf("WriteSTL: %v", err)
		}
		data = buf.Bytes()
	case "spec-file":
		data = specSTL(c)
	default:
		return fmt.Errorf("%w: unknown api %q", kit.ErrInfra, c.API)
	}
	if c.API != "spec-file" {
		// the bytes against the format: size, count and every vertex as float32, little endian
		if len(data) != 84+50*len(tris) {
			return fmt.Errorf("%s wrote %d bytes for %d triangles, the format needs 84+50n = %d", c.API, len(data), len(tris), 84+50*len(tris))
		}
		if n := binary.LittleEndian.Uint32(data[80:]); int(n) != len(tris) {
			return fmt.Errorf("%s wrote the triangle count %d for %d triangles", c.API, n, len(tris))
		}
		for i, f := range c.Faces {
			rec := data[84+50*i:]
			for k, idx := range f {
				for a, x := range c.Verts[idx] {
					got := binary.LittleEndian.Uint32(rec[12+12*k+4*a:])
					if want := math.Float32bits(float32(x)); got != want {
						return fmt.Errorf("%s: record %d vertex %d axis %d holds float32 bits %#x (%v), want %#x (%v = float32(%v))",
							c.API, i, k, a, got, math.Float32frombits(got), want, float32(x), x)
					}
				}
			}
		}
	}
	got, err := model3d.ReadSTL(newReader(data, c.Chunk))
	if err != nil {
		return fmt.Errorf("ReadSTL of the %s output (%d bytes, %d triangles): %v", c.API, len(data), len(tris), err)
	}
	if len(got) != len(tris) {
		return fmt.Errorf("wrote %d triangles (%s), read %d", len(tris), c.API, len(got))
	}
	for i, t := range got {
		for k := 0; k < 3; k++ {
			g, w := t[k].Array(), tris[i][k].Array()
			for a := 0; a < 3; a++ {
				// bit comparison: the binary format stores the float32 pattern, so even the sign of zero survives
				if bits(g[a]) != bits(r32(w[a])) {
					return fmt.Errorf("triangle %d vertex %d axis %d: wrote %v, read %v, want float64(float32(x)) = %v", i, k, a, w[a], g[a], r32(w[a]))
				}
			}
		}
	}
	return nil
}

// ---------------------------------------------------------------------------
// coloured PLY through the mesh API

func genColorPLY(t *rapid.T) meshCase {
	c := genMesh(t, true)
	c.API = rapid.SampledFrom([]string{"encode", "write"}).Draw(t, "api")
	c.Chunk = genChunk(t)
	c.ColorSeed = rapid.Uint32().Draw(t, "color_seed")
	return c
}

// plyColor: a pure function of the float32-rounded coordinate VALUE, so vertices that
// become the same point in the file (duplicates, collisions after rounding, -0 vs +0)
// carry the same colour.
func plyColor(seed uint32) func(model3d.Coord3D) [3]uint8 {
	return func(c model3d.Coord3D) [3]uint8 {
		h := hashCoord(seed, [3]float64{r32(c.X), r32(c.Y), r32(c.Z)})
		return [3]uint8{uint8(h), uint8(h >> 8), uint8(h >> 16)}
	}
}

func checkColorPLY(c meshCase, o *kit.Obs) error {
	if err := c.valid(); err != nil {
		return err
	}
	c.label(o)
	o.Label("api:" + c.API)
	tris := c.tris()
	cf := plyColor(c.ColorSeed)
	var data []byte
	switch c.API {
	case "encode":
		data = model3d.EncodePLY(tris, cf)
	case "write":
		w := &countingWriter{}
		if err := model3d.WritePLY(w, tris, cf); err != nil {
			return fmt.Errorf("WritePLY: %v", err)
		}
		data = w.buf.Bytes()
	default:
		return fmt.Errorf("%w: unknown api %q", kit.ErrInfra, c.API)
	}
	got, colors, err := model3d.ReadColorPLY(newReader(data, c.Chunk))
	if err != nil {
		return fmt.Errorf("ReadColorPLY of the %s output (%d triangles, %d bytes): %v", c.API, len(tris), len(data), err)
	}
	if len(got) != len(tris) {
		return fmt.Errorf("wrote %d triangles, read %d", len(tris), len(got))
	}
	distinct := map[[3]float64]bool{}
	for i, t := range got {
		for k := 0; k < 3; k++ {
			g, w := t[k].Array(), tris[i][k].Array()
			for a := 0; a < 3; a++ {
				// value comparison: the writer's vertex table may hold +0 for a -0 it considers equal
				if !(g[a] == r32(w[a])) {
					return fmt.Errorf("triangle %d vertex %d axis %d: wrote %v, read %v, want float64(float32(x)) = %v", i, k, a, w[a], g[a], r32(w[a]))
				}
			}
			key := model3d.XYZ(r32(w[0]), r32(w[1]), r32(w[2]))
			distinct[[3]float64{key.X + 0, key.Y + 0, key.Z + 0}] = true
			gc, ok := colors.Load(key)
			if !ok {
				return fmt.Errorf("triangle %d vertex %d: the colour map has no entry for the vertex %v", i, k, key)
			}
			if want := cf(tris[i][k]); gc != want {
				return fmt.Errorf("triangle %d vertex %d (%v): colour %v written, %v read", i, k, w, want, gc)
			}
		}
	}
	if colors.Len() != len(distinct) {
		return fmt.Errorf("the colour map has %d entries, the mesh has %d distinct vertices after rounding", colors.Len(), len(distinct))
	}
	return nil
}

// ---------------------------------------------------------------------------
// segment CSV

type csvCase struct {
	Verts []vec2   `json:"verts"`
	Segs  [][2]int `json:"segs"`
}

func genCSV(t *rapid.T) csvCase {
	var c csvCase
	nv := rapid.IntRange(1, 8).Draw(t, "nverts")
	if oneIn(t, 25, "novertices") {
		nv = 0
	}
	for i := 0; i < nv; i++ {
		if i > 0 && rapid.IntRange(0, 5).Draw(t, "dup") == 0 {
			c.Verts = append(c.Verts, c.Verts[rapid.IntRange(0, i-1).Draw(t, "of")])
			continue
		}
		var v vec2
		for a := range v {
			if rapid.Bool().Draw(t, "wide") {
				v[a] = genCoord64(t, "c")
			} else {
				v[a] = genCoord(t, "c")
			}
		}
		c.Verts = append(c.Verts, v)
	}
	if nv == 0 {
		return c
	}
	ns := rapid.IntRange(2, 12).Draw(t, "nsegs")
	if oneIn(t, 20, "nosegs") {
		ns = 0
	} else if oneIn(t, 10, "single") {
		ns = 1
	}
	for i := 0; i < ns; i++ {
		c.Segs = append(c.Segs, [2]int{rapid.IntRange(0, nv-1).Draw(t, "a"), rapid.IntRange(0, nv-1).Draw(t, "b")})
	}
	return c
}

func checkCSV(c csvCase, o *kit.Obs) error {
	m := model2d.NewMesh()
	var want [][4]uint64
	for _, s := range c.Segs {
		for _, i := range s {
			if i < 0 || i >= len(c.Verts) {
				return fmt.Errorf("%w: index out of range", kit.ErrInfra)
			}
		}
		a, b := c.Verts[s[0]], c.Verts[s[1]]
		for _, x := range []float64{a[0], a[1], b[0], b[1]} {
			if math.IsNaN(x) || math.IsInf(x, 0) {
				return fmt.Errorf("%w: non-finite coordinate", kit.ErrInfra)
			}
		}
		m.Add(&model2d.Segment{model2d.XY(a[0], a[1]), model2d.XY(b[0], b[1])})
		want = append(want, [4]uint64{bits(a[0]), bits(a[1]), bits(b[0]), bits(b[1])})
	}
	switch len(c.Segs) {
	case 0:
		o.Label("mesh:empty")
	case 1:
		o.Label("mesh:single")
		o.NonTrivial()
	default:
		o.NonTrivial()
	}
	for _, w := range want {
		for _, b := range w {
			x := math.Float64frombits(b)
			switch ax := math.Abs(x); {
			case x == 0 && math.Signbit(x):
				o.Label("coord:neg-zero")
			case ax != 0 && ax < 2.2250738585072014e-308:
				o.Label("coord:subnormal64")
			case ax > 1e300:
				o.Label("coord:huge")
			}
		}
	}
	data := model2d.EncodeCSV(m)
	segs, err := model2d.DecodeCSV(data)
	if err != nil {
		return fmt.Errorf("DecodeCSV of EncodeCSV output: %v\n%s", err, clipText(string(data)))
	}
	var got [][4]uint64
	for _, s := range segs {
		got = append(got, [4]uint64{bits(s[0].X), bits(s[0].Y), bits(s[1].X), bits(s[1].Y)})
	}
	less := func(x [][4]uint64) func(i, j int) bool {
		return func(i, j int) bool {
			for k := 0; k < 4; k++ {
				if x[i][k] != x[j][k] {
					return x[i][k] < x[j][k]
				}
			}
			return false
		}
	}
	sort.Slice(want, less(want))
	sort.Slice(got, less(got))
	if len(got) != len(want) {
		return fmt.Errorf("wrote %d segments, read %d\n%s", len(want), len(got), clipText(string(data)))
	}
	for i := range want {
		if got[i] != want[i] {
			f := func(w [4]uint64) string {
				return fmt.Sprintf("(%v,%v)-(%v,%v)", math.Float64frombits(w[0]), math.Float64frombits(w[1]), math.Float64frombits(w[2]), math.Float64frombits(w[3]))
			}
			return fmt.Errorf("segment multisets differ (bit-exact comparison): wrote %s, read %s\n%s", f(want[i]), f(got[i]), clipText(string(data)))
		}
	}
	return nil
}

// ---------------------------------------------------------------------------

func genWith(big bool, f func(t *rapid.T, c *meshCase)) func(t *rapid.T) meshCase {
	return func(t *rapid.T) meshCase {
		c := genMesh(t, big)
		f(t, &c)
		return c
	}
}

func TestProp(t *testing.T) {
	runtime.GOMAXPROCS(2)
	nSTL, atSTL := edgeMeshAt([]string{"encode", "write", "spec-file"})
	nPLY, atPLY := edgeMeshAt([]string{"encode", "write"})
	nOne, atOne := edgeMeshAt([]string{""})
	kit.Run(t, "C15", rule,
		kit.Enum[meshCase]{Name: "C15/stl/binary-edge-enum", N: nSTL, At: atSTL, Check: checkSTL},
		kit.Clause[meshCase]{Name: "C15/stl/binary-roundtrip", Quick: 30000, Thorough: 800000, Gen: genSTL, Check: checkSTL},
		kit.Enum[meshCase]{Name: "C15/stl/ascii-edge-enum", N: nOne * 6, At: func(i int) meshCase {
			c := atOne(i % nOne)
			c.Style = uint32(i*2654435761 + 17)
			return c
		}, Check: checkSTLText},
		kit.Clause[meshCase]{Name: "C15/stl/ascii-text", Quick: 20000, Thorough: 500000, Gen: genWith(true, func(t *rapid.T, c *meshCase) {
			c.Chunk = genChunk(t)
			c.Style = rapid.Uint32().Draw(t, "style")
		}), Check: checkSTLText},
		kit.Enum[meshCase]{Name: "C15/ply/color-edge-enum", N: nPLY, At: atPLY, Check: checkColorPLY},
		kit.Clause[meshCase]{Name: "C15/ply/color-roundtrip", Quick: 20000, Thorough: 500000, Gen: genColorPLY, Check: checkColorPLY},
		kit.Clause[plyCase]{Name: "C15/ply/generic-roundtrip", Quick: 40000, Thorough: 1000000, Gen: genPLY, Check: checkPLY},
		kit.Clause[plyCase]{Name: "C15/fuzz/ply-roundtrip", Quick: 8000, Thorough: 200000, Gen: func(t *rapid.T) plyCase {
			// a quarter of the byte strings are raw rapid draws (short, small values: the corners of the decoder),
			// the rest are pseudo-random expansions of a drawn seed (long, uniform: many rows and lists)
			if oneIn(t, 4, "raw") {
				return decodePLYCase(rapid.SliceOfN(rapid.Byte(), 0, 200).Draw(t, "bytes"))
			}
			// (rapid's integers favour small values: several draws are mixed so that seeds rarely repeat)
			seed := mixU64(mixU64(rapid.Uint64().Draw(t, "seed"), uint64(rapid.Uint32().Draw(t, "seed2"))), uint64(rapid.IntRange(0, 1<<30).Draw(t, "seed3")))
			b := make([]byte, rapid.IntRange(16, 400).Draw(t, "len"))
			for i := range b {
				b[i] = byte(mixU64(seed, uint64(i)) >> 24)
			}
			return decodePLYCase(b)
		}, Check: checkPLY},
		kit.Clause[csvCase]{Name: "C15/csv/roundtrip", Quick: 20000, Thorough: 500000, Gen: genCSV, Check: checkCSV},
		kit.Clause[offCase]{Name: "C15/off/text", Quick: 20000, Thorough: 500000, Gen: genOFF, Check: checkOFF},
		kit.Enum[meshCase]{Name: "C15/obj/edge-enum", N: nOne, At: atOne, Check: func(c meshCase, o *kit.Obs) error {
			if err := checkVertexColorOBJ(c, o); err != nil {
				return err
			}
			if err := checkMaterialOBJ(c, &kit.Obs{}); err != nil {
				return err
			}
			for _, api := range []string{"uvmap", "quantized"} {
				c.API = api
				if err := checkTextureOBJ(c, &kit.Obs{}); err != nil {
					return err
				}
			}
			return check3MF(c, &kit.Obs{})
		}},
		kit.Clause[meshCase]{Name: "C15/obj/vertex-color", Quick: 10000, Thorough: 250000, Gen: genWith(false, func(t *rapid.T, c *meshCase) {
			c.ColorSeed = rapid.Uint32().Draw(t, "color_seed")
		}), Check: checkVertexColorOBJ},
		kit.Clause[meshCase]{Name: "C15/obj/material", Quick: 10000, Thorough: 250000, Gen: genWith(false, func(t *rapid.T, c *meshCase) {
			c.ColorSeed = rapid.Uint32().Draw(t, "color_seed")
			c.Palette = rapid.IntRange(1, 6).Draw(t, "palette")
		}), Check: checkMaterialOBJ},
		kit.Clause[meshCase]{Name: "C15/obj/texture", Quick: 10000, Thorough: 250000, Gen: genWith(false, func(t *rapid.T, c *meshCase) {
			c.API = rapid.SampledFrom([]string{"uvmap", "quantized"}).Draw(t, "api")
			c.ColorSeed = rapid.Uint32().Draw(t, "color_seed")
			c.Palette = rapid.IntRange(1, 12).Draw(t, "palette")
			c.Style = rapid.Uint32().Draw(t, "texture_size")
		}), Check: checkTextureOBJ},
		kit.Clause[meshCase]{Name: "C15/3mf/mesh", Quick: 8000, Thorough: 200000, Gen: genWith(false, func(t *rapid.T, c *meshCase) {
			c.ColorSeed = rapid.Uint32().Draw(t, "unit")
		}), Check: check3MF},
	)
}
