package c15

// Harness-written text files: ASCII STL and OFF in the variants their specifications
// allow (blanks, indentation, numeral spellings, header on one or two lines, final
// newline or not, polygonal faces), read through model3d.ReadSTL / ReadOFF.
// Expected coordinates are computed from the numerals with math/big (nearest float,
// ties to even), not with strconv.

import (
	"fmt"
	ff "github.com/unixpickle/model3d/fileformats"
	"math"
	"math/big"
	"strconv"
	"strings"

	"github.com/unixpickle/model3d/model3d"
	"pgregory.net/rapid"
	"verifharness/gen"
	"verifharness/kit"
)

// styler is a deterministic stream of style choices derived from a seed in the case.
type styler struct {
	seed uint64
	n    uint64
}

func (s *styler) pick(n int) int {
	s.n++
	return int(mixU64(s.seed, s.n) % uint64(n))
}

func (s *styler) oneOf(xs ...string) string { return xs[s.pick(len(xs))] }

// numeral32 spells x so that the numeral's nearest float32 is a well-defined value;
// several spellings carry more digits than a float32 holds (the reader must round).
func numeral32(x float64, s *styler) string {
	f := float64(float32(x))
	switch s.pick(8) {
	case 0:
		return strconv.FormatFloat(f, 'e', -1, 32)
	case 1:
		return strconv.FormatFloat(f, 'f', -1, 32)
	case 2:
		return strconv.FormatFloat(f, 'g', -1, 32)
	case 3:
		return strconv.FormatFloat(f, 'E', -1, 32)
	case 4:
		return strconv.FormatFloat(f, 'e', 8, 64) // 9 significant digits: always enough for a float32
	case 5:
		return strconv.FormatFloat(x, 'g', -1, 64) // the float64 itself: up to 17 digits
	case 6:
		return strconv.FormatFloat(x, 'e', 20, 64)
	default:
		return strconv.FormatFloat(f, 'e', 6, 32) // the customary "%e" of STL exporters (lossy: 7 digits)
	}
}

func numeral64(x float64, s *styler) string {
	switch s.pick(5) {
	case 0:
		return strconv.FormatFloat(x, 'g', -1, 64)
	case 1:
		return strconv.FormatFloat(x, 'e', -1, 64)
	case 2:
		if math.Abs(x) < 1e25 && math.Abs(x) > 1e-25 || x == 0 {
			return strconv.FormatFloat(x, 'f', -1, 64)
		}
		return strconv.FormatFloat(x, 'E', -1, 64)
	case 3:
		return strconv.FormatFloat(x, 'g', 17, 64)
	default:
		return strconv.FormatFloat(x, 'f', 6, 64) // "%f": lossy, the numeral is what counts
	}
}

// nearest32 / nearest64: the float nearest to the decimal numeral.
func nearest32(numeral string) (float64, error) {
	r, ok := new(big.Rat).SetString(numeral)
	if !ok {
		return 0, fmt.Errorf("%w: harness wrote a bad numeral %q", kit.ErrInfra, numeral)
	}
	f, _ := r.Float32()
	return float64(f), nil
}

func nearest64(numeral string) (float64, error) {
	r, ok := new(big.Rat).SetString(numeral)
	if !ok {
		return 0, fmt.Errorf("%w: harness wrote a bad numeral %q", kit.ErrInfra, numeral)
	}
	f, _ := r.Float64()
	return f, nil
}

// ---------------------------------------------------------------------------
// ASCII STL

// writeASCIISTL renders the mesh and returns the text and the expected triangles.
func writeASCIISTL(c meshCase) (string, [][3][3]float64, error) {
	s := &styler{seed: uint64(c.Style)}
	var b strings.Builder
	name := s.oneOf("", " mesh", " a solid with a long name", " facet normal 1 2 3", " OpenSCAD_Model", " endsolid")
	switch s.pick(6) {
	case 0:
		// exporters write file paths and comments here; the name may be longer than any look-ahead window of the reader,
		// and with few or no facets the keyword "facet" may not occur in that window at all
		name = " " + strings.Repeat("/home/user/My Models/part-0001_final (copy)", 1+s.pick(16)) + ".stl"
	case 1:
		name = " " + strings.Repeat("x", 70+s.pick(50))
	}
	indent := s.oneOf("", "  ", "\t", "      ")
	sep := s.oneOf(" ", " ", "  ", "\t")
	trail := s.oneOf("", "", " ", "\t")
	blank := s.pick(3) == 0
	b.WriteString("solid" + name + trail + "\n")
	var want [][3][3]float64
	// one facet in some files has its lines stretched with blanks beyond a reader's buffer (own style stream, so
	// that the rest of the text is the same as without)
	ps := &styler{seed: uint64(c.Style) ^ 0x5bd1e9955bd1e995}
	padFacet, shortSep := -1, sep
	if len(c.Faces) > 0 && ps.pick(8) == 0 {
		padFacet = ps.pick(len(c.Faces))
	}
	padLen := []int{1030, 4090, 4100, 9000, 70000}[ps.pick(5)]
	for fi, f := range c.Faces {
		sep = shortSep
		if fi == padFacet {
			sep = shortSep + strings.Repeat(" ", padLen/4)
		}
		if blank && s.pick(2) == 0 {
			b.WriteString(s.oneOf("\n", "  \n", "\n\n"))
		}
		nrm := s.oneOf("0 0 0", "0 0 1", "-1.5e-3 0.25 1E0", "0.577350 0.577350 -0.577350")
		b.WriteString(indent + "facet" + sep + "normal" + sep + strings.ReplaceAll(nrm, " ", sep) + trail + "\n")
		b.WriteString(indent + indent + "outer" + sep + "loop" + trail + "\n")
		var tri [3][3]float64
		for k, idx := range f {
			b.WriteString(indent + indent + indent + "vertex")
			for a, x := range c.Verts[idx] {
				tok := numeral32(x, s)
				e, err := nearest32(tok)
				if err != nil {
					return "", nil, err
				}
				if math.IsInf(e, 0) {
					return "", nil, fmt.Errorf("%w: numeral %s overflows float32", kit.ErrInfra, tok)
				}
				tri[k][a] = e
				b.WriteString(sep + tok)
			}
			b.WriteString(trail + "\n")
		}
		want = append(want, tri)
		b.WriteString(indent + indent + "endloop" + trail + "\n")
		b.WriteString(indent + "endfacet" + trail + "\n")
	}
	end := "endsolid"
	if s.pick(2) == 0 {
		end += name
	}
	b.WriteString(end)
	if s.pick(3) != 0 {
		b.WriteString("\n")
	}
	return b.String(), want, nil
}

func checkSTLText(c meshCase, o *kit.Obs) error {
	if err := c.valid(); err != nil {
		return err
	}
	c.label(o)
	text, want, err := writeASCIISTL(c)
	if err != nil {
		return err
	}
	if !strings.HasSuffix(text, "\n") {
		o.Label("text:no-final-newline")
	}
	if len(text) > 512 {
		o.Label("text:>512-bytes")
	}
	if i := strings.Index(text, "facet"); (i < 0 || i >= 512) && len(text) >= 84 {
		o.Label("text:no-facet-keyword-in-first-512-bytes")
	}
	if strings.Index(text, "\n") >= 512 {
		o.Label("text:first-line>512-bytes")
	}
	for _, ln := range strings.Split(text, "\n")[1:] {
		if len(ln) > 4096 {
			o.Label("text:facet-line>4096-bytes")
			break
		}
	}
	got, err := model3d.ReadSTL(newReader([]byte(text), c.Chunk))
	if err != nil {
		return fmt.Errorf("ReadSTL rejects a well-formed ASCII STL file: %v\n%s", err, clipText(text))
	}
	if len(got) != len(want) {
		return fmt.Errorf("ASCII STL with %d facets read as %d triangles\n%s", len(want), len(got), clipText(text))
	}
	for i, t := range got {
		for k := 0; k < 3; k++ {
			g := t[k].Array()
			for a := 0; a < 3; a++ {
				// == on values: the numeral "-0" may legitimately read as either zero
				if !(g[a] == want[i][k][a]) {
					return fmt.Errorf("facet %d vertex %d axis %d: read %v, the numeral's nearest float32 is %v\n%s", i, k, a, g[a], want[i][k][a], clipText(text))
				}
			}
		}
	}
	return nil
}

func clipText(s string) string {
	if len(s) > 1500 {
		return s[:1500] + "…"
	}
	return s
}

// ---------------------------------------------------------------------------
// OFF

type offCase struct {
	Verts        []vec3  `json:"verts"`
	Faces        [][]int `json:"faces"` // 1, 2 (no triangles), 3 (as written) or more (convex planar polygon) indices
	OneLine      bool    `json:"one_line"`
	FinalNewline bool    `json:"final_newline"`
	HeaderTrail  string  `json:"header_trail,omitempty"` // blanks after the "OFF" keyword on a line of its own
	Edges        int     `json:"edges"`
	Style        uint32  `json:"style"`
	Chunk        int     `json:"chunk,omitempty"`
	// Pad > 0: one vertex line and one face line are stretched with blanks between their tokens to about Pad
	// bytes (lines longer than a reader's buffer are still lines)
	Pad int `json:"pad,omitempty"`
}

// genCoord64 draws a coordinate for a float64 text format.
func genCoord64(t *rapid.T, label string) float64 {
	switch k := rapid.IntRange(0, 11).Draw(t, label+".class"); k {
	case 0, 1, 2, 3:
		return gen.F(t, -10, 10, label)
	case 4:
		return float64(rapid.IntRange(-8, 8).Draw(t, label+".int"))
	case 5:
		return 0
	case 6:
		return negZero
	case 7:
		return sign(t, label+".neg") * gen.LogF(t, 1e30, 1e308, label+".huge")
	case 8:
		return sign(t, label+".neg") * rapid.SampledFrom([]float64{5e-324, 2.2250738585072014e-308, 1e-310, math.MaxFloat64, 0.1, 1.0 / 3,
			9007199254740993, 1e23, 8.41e21, 2.2250738585072011e-308}).Draw(t, label+".tricky")
	case 9:
		return sign(t, label+".neg") * gen.LogF(t, 1e-300, 1e-30, label+".small")
	default:
		return sign(t, label+".neg") * gen.LogF(t, 1e-6, 1e6, label+".log")
	}
}

func genOFF(t *rapid.T) offCase {
	c := offCase{OneLine: rapid.Bool().Draw(t, "one_line"), Style: rapid.Uint32().Draw(t, "style"), Chunk: genChunk(t)}
	c.FinalNewline = true
	if rapid.IntRange(0, 3).Draw(t, "no_final_newline") == 0 {
		c.FinalNewline = false
	}
	if !c.OneLine && rapid.IntRange(0, 5).Draw(t, "header_trail") == 0 {
		c.HeaderTrail = rapid.SampledFrom([]string{" ", "\t", "  "}).Draw(t, "trail")
	}
	nv := rapid.IntRange(0, 7).Draw(t, "nverts")
	for i := 0; i < nv; i++ {
		if len(c.Verts) > 0 && rapid.IntRange(0, 5).Draw(t, "dup") == 0 {
			c.Verts = append(c.Verts, c.Verts[rapid.IntRange(0, len(c.Verts)-1).Draw(t, "of")])
			continue
		}
		c.Verts = append(c.Verts, vec3{genCoord64(t, "x"), genCoord64(t, "y"), genCoord64(t, "z")})
	}
	nf := 0
	if nv > 0 {
		nf = rapid.IntRange(0, 8).Draw(t, "nfaces")
	}
	for i := 0; i < nf; i++ {
		n := 3
		switch rapid.IntRange(0, 11).Draw(t, "arity") {
		case 0:
			n = 1
		case 1:
			n = 2
		}
		f := make([]int, n)
		for k := range f {
			f[k] = rapid.IntRange(0, nv-1).Draw(t, "idx")
		}
		c.Faces = append(c.Faces, f)
	}
	// convex planar polygons with their own vertices: points on a circle at strictly
	// increasing angles (gap >= pi/n), so no three are colinear and the polygon is
	// simple whatever the draws shrink to
	np := rapid.IntRange(0, 2).Draw(t, "npolys")
	for p := 0; p < np; p++ {
		n := rapid.IntRange(4, 8).Draw(t, "polygon.n")
		w := gen.Dir3(t, "polygon.normal").Unit()
		e := kit.V3{1, 0, 0}
		if math.Abs(w[0]) > 0.7 {
			e = kit.V3{0, 1, 0}
		}
		u := w.Cross(e).Unit()
		v := w.Cross(u).Unit()
		ctr := gen.Vec3(t, 5, "polygon.centre")
		r := gen.F(t, 0.5, 5, "polygon.radius")
		rev := rapid.Bool().Draw(t, "polygon.reverse")
		dart := rapid.IntRange(0, 2).Draw(t, "polygon.dart") == 0
		if dart {
			n = 4 // the smallest polygon that is not convex: one vertex pulled inside the triangle of the others
		}
		first := rapid.IntRange(0, 3).Draw(t, "polygon.first")
		f := make([]int, n)
		for k := 0; k < n; k++ {
			a := 2 * math.Pi * (float64(k) + 0.5*gen.F(t, 0, 1, "polygon.jitter")) / float64(n)
			rad := r
			if dart {
				// corners at 0, 120 and 240 degrees, the reflex corner between two of them at a quarter of the radius
				a = 2 * math.Pi * []float64{0, 60, 120, 240}[k] / 360
				if k == 1 {
					rad = r * gen.F(t, 0.1, 0.4, "polygon.dent")
				}
			}
			pt := ctr.Add(u.Scale(rad * math.Cos(a))).Add(v.Scale(rad * math.Sin(a)))
			c.Verts = append(c.Verts, vec3(pt))
			f[k] = len(c.Verts) - 1
		}
		if dart {
			// any corner may come first in the face's index list
			g := make([]int, n)
			for k := range g {
				g[k] = f[(k+first)%n]
			}
			f = g
		}
		if rev {
			for i, j := 0, n-1; i < j; i, j = i+1, j-1 {
				f[i], f[j] = f[j], f[i]
			}
		}
		// insert at a random position among the faces
		at := rapid.IntRange(0, len(c.Faces)).Draw(t, "polygon.at")
		c.Faces = append(c.Faces, nil)
		copy(c.Faces[at+1:], c.Faces[at:])
		c.Faces[at] = f
	}
	c.Edges = rapid.SampledFrom([]int{0, 0, 3 * len(c.Faces), 7}).Draw(t, "edges")
	if rapid.IntRange(0, 7).Draw(t, "padded") == 0 {
		c.Pad = rapid.SampledFrom([]int{300, 4090, 4096, 4100, 5000, 9000, 70000}).Draw(t, "pad")
	}
	return c
}

func (c offCase) valid() error {
	for _, v := range c.Verts {
		for _, x := range v {
			if math.IsNaN(x) || math.IsInf(x, 0) {
				return fmt.Errorf("%w: non-finite coordinate", kit.ErrInfra)
			}
		}
	}
	for _, f := range c.Faces {
		if len(f) == 0 {
			return fmt.Errorf("%w: face without vertices", kit.ErrInfra)
		}
		for _, i := range f {
			if i < 0 || i >= len(c.Verts) {
				return fmt.Errorf("%w: face index out of range", kit.ErrInfra)
			}
		}
	}
	if strings.Trim(c.HeaderTrail, " \t") != "" {
		return fmt.Errorf("%w: header trail must be blanks", kit.ErrInfra)
	}
	return nil
}

func checkOFF(c offCase, o *kit.Obs) error {
	if err := c.valid(); err != nil {
		return err
	}
	s := &styler{seed: uint64(c.Style)}
	sep := s.oneOf(" ", " ", "  ", "\t")
	lead := s.oneOf("", "", " ", "\t")
	trail := s.oneOf("", "", " ", "\t ")
	var b strings.Builder
	counts := fmt.Sprintf("%d%s%d%s%d", len(c.Verts), sep, len(c.Faces), sep, c.Edges)
	if c.OneLine {
		b.WriteString("OFF" + s.oneOf(" ", "  ", "\t") + counts + trail + "\n")
		o.Label("header:one-line")
	} else {
		b.WriteString("OFF" + c.HeaderTrail + "\n" + lead + counts + trail + "\n")
		o.Label("header:two-lines")
		if c.HeaderTrail != "" {
			o.Label("header:blank-after-OFF")
		}
	}
	// vertices of polygonal faces are written with exact numerals: a lossy spelling would
	// bend the polygon out of its plane, and TriangulateFace only approximates non-planar input
	inPolygon := map[int]bool{}
	for _, f := range c.Faces {
		if len(f) > 3 {
			for _, idx := range f {
				inPolygon[idx] = true
			}
		}
	}
	want := make([][3]float64, len(c.Verts))
	padV, padF := -1, -1
	if c.Pad > 0 {
		o.Labelf("padded-line:%d", c.Pad)
		if len(c.Verts) > 0 {
			padV = s.pick(len(c.Verts))
		}
		if len(c.Faces) > 0 {
			padF = s.pick(len(c.Faces))
		}
	}
	shortSep := sep
	for i, v := range c.Verts {
		sep = shortSep
		if i == padV {
			sep = shortSep + strings.Repeat(" ", c.Pad/3)
		}
		b.WriteString(lead)
		for a, x := range v {
			tok := numeral64(x, s)
			if inPolygon[i] {
				tok = strconv.FormatFloat(x, []byte{'g', 'e', 'E'}[s.pick(3)], -1, 64)
			}
			e, err := nearest64(tok)
			if err != nil {
				return err
			}
			want[i][a] = e
			if a > 0 {
				b.WriteString(sep)
			}
			b.WriteString(tok)
		}
		b.WriteString(trail + "\n")
	}
	for i, f := range c.Faces {
		sep = shortSep
		if i == padF {
			sep = shortSep + strings.Repeat(" ", c.Pad/(len(f)+1))
		}
		b.WriteString(lead + strconv.Itoa(len(f)))
		for _, idx := range f {
			b.WriteString(sep + strconv.Itoa(idx))
		}
		b.WriteString(trail)
		if i < len(c.Faces)-1 || c.FinalNewline {
			b.WriteString("\n")
		}
	}
	text := b.String()
	if !c.FinalNewline {
		o.Label("text:no-final-newline")
	}
	if len(c.Faces) > 0 {
		o.NonTrivial()
	} else {
		o.Label("mesh:empty")
	}

	// the polygon-level reader: all faces are collected first and looked at afterwards
	if or, err := ff.NewOFFReader(newReader([]byte(text), c.Chunk)); err != nil {
		return fmt.Errorf("NewOFFReader rejects a well-formed OFF file: %v\n%q", err, clipText(text))
	} else {
		if or.NumFaces() != len(c.Faces) {
			return fmt.Errorf("OFFReader.NumFaces() = %d, the file declares %d\n%q", or.NumFaces(), len(c.Faces), clipText(text))
		}
		var polys [][][3]float64
		for range c.Faces {
			f, err := or.ReadFace()
			if err != nil {
				return fmt.Errorf("OFFReader.ReadFace: %v\n%q", err, clipText(text))
			}
			polys = append(polys, f)
		}
		for fi, f := range c.Faces {
			if len(polys[fi]) != len(f) {
				return fmt.Errorf("OFFReader: face %d has %d corners, written with %d\n%q", fi, len(polys[fi]), len(f), clipText(text))
			}
			for k, idx := range f {
				if polys[fi][k] != want[idx] {
					return fmt.Errorf("OFFReader: face %d corner %d reads %v after all faces were read, written %v\n%q", fi, k, polys[fi][k], want[idx], clipText(text))
				}
			}
		}
	}
	got, err := model3d.ReadOFF(newReader([]byte(text), c.Chunk))
	if err != nil {
		return fmt.Errorf("ReadOFF rejects a well-formed OFF file: %v\n%q", err, clipText(text))
	}
	gi := 0
	for fi, f := range c.Faces {
		switch n := len(f); {
		case n < 3:
			o.Label("face:point-or-line")
		case n == 3:
			if gi >= len(got) {
				return fmt.Errorf("face %d: missing triangle (file has %d faces, read %d triangles)\n%q", fi, len(c.Faces), len(got), clipText(text))
			}
			for k, idx := range f {
				if g := got[gi][k].Array(); g != want[idx] {
					return fmt.Errorf("face %d vertex %d: read %v, written %v\n%q", fi, k, g, want[idx], clipText(text))
				}
			}
			gi++
		default:
			o.Labelf("face:polygon")
			if gi+n-2 > len(got) {
				return fmt.Errorf("face %d: a %d-gon must give %d triangles, only %d triangles remain\n%q", fi, n, n-2, len(got)-gi, clipText(text))
			}
			poly := make([]kit.V3, n)
			scale := 0.0
			for k, idx := range f {
				poly[k] = kit.V3(want[idx])
				scale = math.Max(scale, poly[k].MaxAbs())
			}
			// vector area of the planar polygon
			var va kit.V3
			for k := range poly {
				va = va.Add(poly[k].Cross(poly[(k+1)%n]))
			}
			polyArea := va.Norm() / 2
			// TriangulateFace rebuilds vertices from a 2-D projection: coordinates are
			// reproduced up to rounding (a few ulp of the polygon's extent); tolerance 1e-9 relative
			tol := 1e-9 * (1 + scale)
			sum := 0.0
			for _, t := range got[gi : gi+n-2] {
				var tri kit.Tri
				used := map[int]bool{}
				for k := 0; k < 3; k++ {
					tri[k] = kit.V3(t[k].Array())
					best, bi := math.Inf(1), -1
					for j, p := range poly {
						if d := p.Dist(tri[k]); d < best {
							best, bi = d, j
						}
					}
					if best > tol || used[bi] {
						return fmt.Errorf("face %d (%d-gon): triangle %v is not spanned by three distinct polygon vertices (nearest distance %g)\n%q", fi, n, tri, best, clipText(text))
					}
					used[bi] = true
				}
				sum += tri.Area()
			}
			if math.Abs(sum-polyArea) > 1e-9*polyArea+tol*tol {
				return fmt.Errorf("face %d (%d-gon): triangles have total area %.12g, the polygon %.12g\n%q", fi, n, sum, polyArea, clipText(text))
			}
			gi += n - 2
		}
	}
	if gi != len(got) {
		return fmt.Errorf("OFF file with %d faces gives %d triangles, read %d\n%q", len(c.Faces), gi, len(got), clipText(text))
	}
	return nil
}
