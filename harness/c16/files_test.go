package c16

// Harness-side writers of VALID mesh files (binary + ASCII STL, OFF with polygon
// faces, colour PLY and generic PLY in the three encodings, segment CSV) and the
// single-field mutation layer.  Nothing here calls the library: the files are
// written from the format descriptions, as a sequence of "pieces" that remember
// what they mean (count, list length, index, type name, ...), so that a mutation
// can corrupt exactly one field.

import (
	"bytes"
	"encoding/binary"
	"fmt"
	"math"
	"strconv"
	"strings"

	"pgregory.net/rapid"
)

const maxInput = 4096

// ---------------------------------------------------------------------------
// choice source: rapid draws (random clauses) or a fixed LCG (enumerated corpus)

type src interface {
	Int(lo, hi int, label string) int
}

type rapidSrc struct{ t *rapid.T }

func (s rapidSrc) Int(lo, hi int, label string) int { return rapid.IntRange(lo, hi).Draw(s.t, label) }

// lcgSrc is a deterministic sequence (a function of the corpus index only).
type lcgSrc struct{ s uint64 }

func newLCG(i int) *lcgSrc { return &lcgSrc{s: uint64(i)*0x9e3779b97f4a7c15 + 0x1234567} }
func (s *lcgSrc) Int(lo, hi int, _ string) int {
	s.s = s.s*6364136223846793005 + 1442695040888963407
	return lo + int((s.s>>33)%uint64(hi-lo+1))
}

func pick[T any](s src, xs []T, label string) T { return xs[s.Int(0, len(xs)-1, label)] }

// ---------------------------------------------------------------------------
// pieces

type piece struct {
	B     []byte
	Role  string // count | len | index | type | kw | num | ws | raw | name
	Enc   string // "" (ASCII decimal) or u8,i8,u16le,u16be,i16le,i16be,u32le,u32be,i32le,i32be for binary integer fields
	Val   int64  // semantic value of count/len/index fields
	Ref   int64  // index fields: size of the table indexed
	Group int    // >0: id of the PLY property line this piece belongs to
	Elem  int    // >0: id of the PLY element the property line belongs to
}

type file struct {
	Kind   string // e.g. "stl-binary", "off", "ply-colour-ascii"
	Pieces []piece
}

func (f *file) add(role string, b string) {
	f.Pieces = append(f.Pieces, piece{B: []byte(b), Role: role})
}
func (f *file) ws(b string)  { f.add("ws", b) }
func (f *file) kw(b string)  { f.add("kw", b) }
func (f *file) raw(b []byte) { f.Pieces = append(f.Pieces, piece{B: b, Role: "raw"}) }
func (f *file) intASCII(role string, v, ref int64) {
	f.Pieces = append(f.Pieces, piece{B: []byte(strconv.FormatInt(v, 10)), Role: role, Val: v, Ref: ref})
}
func (f *file) intBin(role, enc string, v, ref int64) {
	f.Pieces = append(f.Pieces, piece{B: encodeInt(enc, v), Role: role, Enc: enc, Val: v, Ref: ref})
}

func (f *file) bytes() []byte {
	var b bytes.Buffer
	for _, p := range f.Pieces {
		b.Write(p.B)
	}
	return b.Bytes()
}

// encodeInt writes v (two's complement, truncated) in the given binary encoding.
func encodeInt(enc string, v int64) []byte {
	var order binary.ByteOrder = binary.LittleEndian
	if strings.HasSuffix(enc, "be") {
		order = binary.BigEndian
	}
	switch {
	case strings.HasPrefix(enc, "u8"), strings.HasPrefix(enc, "i8"):
		return []byte{byte(v)}
	case strings.HasPrefix(enc, "u16"), strings.HasPrefix(enc, "i16"):
		b := make([]byte, 2)
		order.PutUint16(b, uint16(v))
		return b
	case strings.HasPrefix(enc, "u32"), strings.HasPrefix(enc, "i32"):
		b := make([]byte, 4)
		order.PutUint32(b, uint32(v))
		return b
	}
	panic("encodeInt: " + enc)
}

// ---------------------------------------------------------------------------
// numbers

var floatTokens = []string{"0", "1", "-1", "0.5", "-2.25", "3", "1e-3", "1.5e2", "-0", "7.125", "100", "0.333333", "2e0", "-4.75", "12.5", "6"}

func floatTok(s src) string { return pick(s, floatTokens, "float") }
func floatVal(s src) float64 {
	v, err := strconv.ParseFloat(floatTok(s), 64)
	if err != nil {
		panic(err)
	}
	return v
}

// ---------------------------------------------------------------------------
// STL

func buildSTLBinary(s src) *file {
	f := &file{Kind: "stl-binary"}
	hdr := make([]byte, 80)
	switch s.Int(0, 2, "header") {
	case 1:
		copy(hdr, "binary stl written by the harness")
		for i := range hdr {
			if hdr[i] == 0 {
				hdr[i] = ' '
			}
		}
	case 2:
		// binary files that start with "solid" exist in the wild; the zero bytes mark them as binary
		copy(hdr, "solid harness")
	}
	f.raw(hdr)
	n := s.Int(0, 4, "ntris")
	f.intBin("count", "u32le", int64(n), 0)
	for i := 0; i < n; i++ {
		rec := make([]byte, 48)
		for j := 0; j < 12; j++ {
			binary.LittleEndian.PutUint32(rec[4*j:], math.Float32bits(float32(floatVal(s))))
		}
		f.raw(rec)
		f.raw([]byte{0, 0})
	}
	return f
}

func buildSTLASCII(s src) *file {
	f := &file{Kind: "stl-ascii"}
	nl := pick(s, []string{"\n", "\n", "\r\n"}, "newline")
	ind := pick(s, []string{"", "  ", "\t"}, "indent")
	name := pick(s, []string{"", " harness", " a b"}, "name")
	f.kw("solid")
	f.add("name", name)
	f.ws(nl)
	n := s.Int(0, 3, "ntris")
	for i := 0; i < n; i++ {
		f.ws(ind)
		f.kw("facet")
		f.ws(" ")
		f.kw("normal")
		for j := 0; j < 3; j++ {
			f.ws(" ")
			f.add("num", floatTok(s))
		}
		f.ws(nl)
		f.ws(ind + ind)
		f.kw("outer loop")
		f.ws(nl)
		for v := 0; v < 3; v++ {
			f.ws(ind + ind + ind)
			f.kw("vertex")
			for j := 0; j < 3; j++ {
				f.ws(" ")
				f.add("num", floatTok(s))
			}
			f.ws(nl)
		}
		f.ws(ind + ind)
		f.kw("endloop")
		f.ws(nl)
		f.ws(ind)
		f.kw("endfacet")
		f.ws(nl)
	}
	f.kw("endsolid")
	f.add("name", name)
	if s.Int(0, 3, "finalnl") > 0 {
		f.ws(nl)
	}
	return f
}

// ---------------------------------------------------------------------------
// OFF

// convexPolygon returns k >= 4 points in strictly convex position (a jittered
// regular polygon: consecutive directions differ by 2*pi/k * [0.8, 1.2], radius
// factor in [0.9, 1.1] keeps convexity for k <= 7) in an axis-aligned plane.
func convexPolygon(s src, k int) [][3]float64 {
	r := float64(s.Int(1, 4, "radius"))
	c := [3]float64{float64(s.Int(-3, 3, "cx")), float64(s.Int(-3, 3, "cy")), float64(s.Int(-3, 3, "cz"))}
	plane := s.Int(0, 2, "plane")
	phase := float64(s.Int(0, 62, "phase")) / 10
	pts := make([][3]float64, k)
	for i := range pts {
		a := phase + 2*math.Pi*(float64(i)+0.1*float64(s.Int(-1, 1, "jitter")))/float64(k)
		u, v := r*math.Cos(a), r*math.Sin(a)
		p := c
		p[plane] += u
		p[(plane+1)%3] += v
		// four decimals: the rounding (5e-5) is far below the convexity margin
		for j := range p {
			p[j] = math.Round(p[j]*1e4) / 1e4
		}
		pts[i] = p
	}
	if s.Int(0, 1, "reverse") == 1 {
		for i, j := 0, k-1; i < j; i, j = i+1, j-1 {
			pts[i], pts[j] = pts[j], pts[i]
		}
	}
	return pts
}

func buildOFF(s src) *file {
	f := &file{Kind: "off"}
	var verts [][3]string
	nv := s.Int(3, 6, "nverts")
	for i := 0; i < nv; i++ {
		verts = append(verts, [3]string{floatTok(s), floatTok(s), floatTok(s)})
	}
	type face []int
	var faces []face
	nf := s.Int(0, 4, "nfaces")
	for i := 0; i < nf; i++ {
		switch k := s.Int(0, 9, "facekind"); {
		case k <= 4: // triangle over the random vertices (may be degenerate: triangles are never triangulated)
			faces = append(faces, face{s.Int(0, nv-1, "i"), s.Int(0, nv-1, "i"), s.Int(0, nv-1, "i")})
		case k <= 7: // convex polygon with its own vertices
			n := s.Int(4, 7, "arity")
			fc := face{}
			for _, p := range convexPolygon(s, n) {
				fc = append(fc, len(verts))
				verts = append(verts, [3]string{fmtG(p[0]), fmtG(p[1]), fmtG(p[2])})
			}
			faces = append(faces, fc)
		case k == 8: // a line or a point (legal OFF, contributes no triangles)
			fc := face{}
			for j := s.Int(0, 2, "small"); j > 0; j-- {
				fc = append(fc, s.Int(0, nv-1, "i"))
			}
			faces = append(faces, fc)
		default:
			faces = append(faces, face{0, 1, 2})
		}
	}
	f.kw("OFF")
	if s.Int(0, 2, "oneline") == 0 {
		f.ws(" ")
	} else {
		f.ws("\n")
	}
	f.intASCII("count", int64(len(verts)), 0)
	f.ws(" ")
	f.intASCII("count", int64(len(faces)), 0)
	f.ws(" ")
	f.intASCII("count", 0, 0) // edge count, ignored by readers
	f.ws("\n")
	sep := pick(s, []string{" ", " ", "  ", "\t"}, "sep")
	for _, v := range verts {
		for j, c := range v {
			if j > 0 {
				f.ws(sep)
			}
			f.add("num", c)
		}
		f.ws("\n")
	}
	for _, fc := range faces {
		f.intASCII("len", int64(len(fc)), 0)
		for _, i := range fc {
			f.ws(sep)
			f.intASCII("index", int64(i), int64(len(verts)))
		}
		f.ws("\n")
	}
	return f
}

func fmtG(x float64) string { return strconv.FormatFloat(x, 'g', -1, 64) }

// ---------------------------------------------------------------------------
// PLY

var plyIntTypes = []string{"char", "uchar", "short", "ushort", "int", "uint", "int8", "uint8", "int16", "uint16", "int32", "uint32"}
var plyFloatTypes = []string{"float", "double", "float32", "float64"}
var plyAllTypes = append(append([]string{}, plyIntTypes...), plyFloatTypes...)

// canonical kind of a PLY type name: i8 u8 i16 u16 i32 u32 f32 f64
func plyKind(t string) string {
	switch t {
	case "char", "int8":
		return "i8"
	case "uchar", "uint8":
		return "u8"
	case "short", "int16":
		return "i16"
	case "ushort", "uint16":
		return "u16"
	case "int", "int32":
		return "i32"
	case "uint", "uint32":
		return "u32"
	case "float", "float32":
		return "f32"
	case "double", "float64":
		return "f64"
	}
	return ""
}

func plySize(t string) int {
	switch plyKind(t) {
	case "i8", "u8":
		return 1
	case "i16", "u16":
		return 2
	case "i32", "u32", "f32":
		return 4
	case "f64":
		return 8
	}
	return 0
}

var plyFormats = []string{"ascii", "binary_little_endian", "binary_big_endian"}

type plyProp struct {
	lenType  string // "" for scalars
	elemType string
	name     string
}

type plyElem struct {
	name  string
	count int
	props []plyProp
}

type plyWriter struct {
	f      *file
	format string
	group  int
	first  bool // first token of an ASCII row
}

func (w *plyWriter) header(elems []plyElem, comment bool) {
	f := w.f
	f.kw("ply")
	f.ws("\n")
	f.kw("format")
	f.ws(" ")
	f.add("name", w.format)
	f.ws(" ")
	f.kw("1.0")
	f.ws("\n")
	if comment {
		f.kw("comment written by the harness")
		f.ws("\n")
	}
	for ei, e := range elems {
		f.kw("element")
		f.ws(" ")
		f.add("name", e.name)
		f.ws(" ")
		f.intASCII("count", int64(e.count), 0)
		f.ws("\n")
		for _, p := range e.props {
			w.group++
			start := len(f.Pieces)
			f.kw("property")
			f.ws(" ")
			if p.lenType != "" {
				f.kw("list")
				f.ws(" ")
				f.add("type", p.lenType)
				f.ws(" ")
			}
			f.add("type", p.elemType)
			f.ws(" ")
			f.add("name", p.name)
			f.ws("\n")
			for i := start; i < len(f.Pieces); i++ {
				f.Pieces[i].Group = w.group
				f.Pieces[i].Elem = ei + 1
			}
		}
	}
	f.kw("end_header")
	f.ws("\n")
}

// value writes one scalar of PLY type t.  role is "num" for plain data, "len" or
// "index" for fields the mutation layer knows about.
func (w *plyWriter) value(t string, role string, iv int64, fv float64, ref int64) {
	f := w.f
	k := plyKind(t)
	if w.format == "ascii" {
		if !w.first {
			f.ws(" ")
		}
		w.first = false
		if k == "f32" || k == "f64" {
			f.add("num", fmtG(fv))
		} else {
			f.intASCII(role, iv, ref)
		}
		return
	}
	end := "le"
	var order binary.ByteOrder = binary.LittleEndian
	if w.format == "binary_big_endian" {
		end, order = "be", binary.BigEndian
	}
	switch k {
	case "f32":
		b := make([]byte, 4)
		order.PutUint32(b, math.Float32bits(float32(fv)))
		f.raw(b)
	case "f64":
		b := make([]byte, 8)
		order.PutUint64(b, math.Float64bits(fv))
		f.raw(b)
	case "i8", "u8":
		f.intBin(role, k, iv, ref)
	default:
		f.intBin(role, k+end, iv, ref)
	}
}

func (w *plyWriter) endRow() {
	if w.format == "ascii" {
		w.f.ws("\n")
	}
	w.first = true
}

// intIn draws an integer representable in PLY integer kind k.
func intIn(s src, k string) int64 {
	switch k {
	case "i8":
		return int64(s.Int(-128, 127, "i8"))
	case "u8":
		return int64(s.Int(0, 255, "u8"))
	case "i16":
		return int64(pick(s, []int{-32768, -1, 0, 1, 300, 32767}, "i16"))
	case "u16":
		return int64(pick(s, []int{0, 1, 255, 256, 65535}, "u16"))
	case "i32":
		return int64(pick(s, []int{-2147483648, -1, 0, 1, 70000, 2147483647}, "i32"))
	case "u32":
		return int64(pick(s, []int{0, 1, 65536, 4294967295}, "u32"))
	}
	panic(k)
}

func buildPLYGeneric(s src) *file {
	format := pick(s, plyFormats, "format")
	f := &file{Kind: "ply-generic-" + format}
	w := &plyWriter{f: f, format: format, first: true}
	if format != "ascii" && s.Int(0, 9, "longlist") == 0 {
		// one row with one long list (a polyline, a big polygon): longer than any initial capacity a reader may guess
		f.Kind += "-long-list"
		p := plyProp{name: "items", elemType: pick(s, []string{"uchar", "char", "uint8"}, "ltype"), lenType: pick(s, []string{"ushort", "int", "uint", "uint16", "int32"}, "llen")}
		elems := []plyElem{{name: "strip", count: 1, props: []plyProp{p}}}
		w.header(elems, false)
		n := s.Int(2040, 2700, "longlen")
		w.value(p.lenType, "len", int64(n), 0, 0)
		for j := 0; j < n; j++ {
			w.value(p.elemType, "num", int64(j%100), 0, 0)
		}
		w.endRow()
		return f
	}
	ne := s.Int(1, 3, "nelems")
	var elems []plyElem
	for i := 0; i < ne; i++ {
		e := plyElem{name: pick(s, []string{"vertex", "face", "edge", "material", "e"}, "ename") + strconv.Itoa(i), count: s.Int(0, 3, "count")}
		np := s.Int(1, 4, "nprops")
		for j := 0; j < np; j++ {
			p := plyProp{name: "p" + strconv.Itoa(j), elemType: pick(s, plyAllTypes, "type")}
			if s.Int(0, 2, "list") == 0 {
				p.lenType = pick(s, plyIntTypes, "lentype")
			}
			e.props = append(e.props, p)
		}
		elems = append(elems, e)
	}
	w.header(elems, s.Int(0, 3, "comment") == 0)
	for _, e := range elems {
		for r := 0; r < e.count; r++ {
			for _, p := range e.props {
				n := 1
				if p.lenType != "" {
					n = s.Int(0, 3, "listlen")
					w.value(p.lenType, "len", int64(n), 0, 0)
				}
				for j := 0; j < n; j++ {
					if k := plyKind(p.elemType); k == "f32" || k == "f64" {
						w.value(p.elemType, "num", 0, floatVal(s), 0)
					} else {
						w.value(p.elemType, "num", intIn(s, k), 0, 0)
					}
				}
			}
			w.endRow()
		}
	}
	return f
}

func buildPLYColour(s src) *file {
	format := pick(s, plyFormats, "format")
	f := &file{Kind: "ply-colour-" + format}
	w := &plyWriter{f: f, format: format, first: true}
	nv := s.Int(0, 5, "nverts")
	nf := 0
	if nv > 0 {
		nf = s.Int(0, 4, "nfaces")
	}
	fl := pick(s, []string{"float", "float32"}, "floatname")
	uc := pick(s, []string{"uchar", "uint8"}, "ucharname")
	vprops := []plyProp{{"", fl, "x"}, {"", fl, "y"}, {"", fl, "z"}, {"", uc, "red"}, {"", uc, "green"}, {"", uc, "blue"}}
	// the reader looks properties up by name: any order is a standard vertex
	for i := len(vprops) - 1; i > 0; i-- {
		if s.Int(0, 3, "shuffle") == 0 {
			j := s.Int(0, i, "j")
			vprops[i], vprops[j] = vprops[j], vprops[i]
		}
	}
	elems := []plyElem{
		{"vertex", nv, vprops},
		{"face", nf, []plyProp{{pick(s, []string{"uchar", "uint8"}, "lenname"), pick(s, []string{"int", "int32"}, "intname"), "vertex_index"}}},
	}
	// an extra element with properties of its own; a header may use an element name twice, so it is sometimes a
	// second "face" or "vertex" (the mesh reader has to turn that file down), before, between or after the others
	extra := s.Int(0, 3, "extra") == 0
	faceEl := elems[1]
	if s.Int(0, 3, "facefirst") == 0 {
		// the format does not prescribe an order: faces may be declared (and stored) before the vertices they index
		elems[0], elems[1] = elems[1], elems[0]
		f.Kind += "-face-first"
	}
	if extra {
		ex := plyElem{pick(s, []string{"edge", "edge", "face", "vertex"}, "extraname"), s.Int(0, 2, "nedges"), []plyProp{{"", "int", "a"}, {"", "short", "b"}}}
		if ex.name != "edge" {
			f.Kind += "-second-" + ex.name + "-element"
		}
		switch s.Int(0, 3, "extrapos") {
		case 0:
			elems = []plyElem{ex, elems[0], elems[1]}
		case 1:
			elems = []plyElem{elems[0], ex, elems[1]}
		default:
			elems = append(elems, ex)
		}
	}
	w.header(elems, s.Int(0, 3, "comment") == 0)
	for _, el := range elems {
		switch {
		case len(el.props) == 2: // the extra element
			for i := 0; i < el.count; i++ {
				w.value("int", "num", int64(s.Int(-5, 5, "a")), 0, 0)
				w.value("short", "num", int64(s.Int(-5, 5, "b")), 0, 0)
				w.endRow()
			}
		case el.name == "vertex":
			for i := 0; i < nv; i++ {
				for _, p := range vprops {
					if plyKind(p.elemType) == "f32" {
						w.value(p.elemType, "num", 0, floatVal(s), 0)
					} else {
						w.value(p.elemType, "num", int64(s.Int(0, 255, "colour")), 0, 0)
					}
				}
				w.endRow()
			}
		default:
			for i := 0; i < nf; i++ {
				w.value(faceEl.props[0].lenType, "len", 3, 0, 0)
				for j := 0; j < 3; j++ {
					w.value(faceEl.props[0].elemType, "index", int64(s.Int(0, nv-1, "vi")), 0, int64(nv))
				}
				w.endRow()
			}
		}
	}
	return f
}

// ---------------------------------------------------------------------------
// CSV

func buildCSV(s src) *file {
	f := &file{Kind: "csv"}
	nl := pick(s, []string{"\n", "\n", "\r\n"}, "newline")
	n := s.Int(0, 6, "rows")
	for i := 0; i < n; i++ {
		for j := 0; j < 4; j++ {
			if j > 0 {
				f.kw(",")
			}
			v := strconv.FormatFloat(floatVal(s)*float64(s.Int(1, 3, "scale")), 'G', -1, 64)
			if s.Int(0, 9, "quote") == 0 {
				v = `"` + v + `"`
			}
			f.add("num", v)
		}
		if i < n-1 || s.Int(0, 3, "finalnl") > 0 {
			f.ws(nl)
		}
	}
	return f
}

// ---------------------------------------------------------------------------
// formats

type format struct {
	target string // clause name component
	build  func(s src) *file
	dict   []string
}

func buildSTL(s src) *file {
	if s.Int(0, 1, "ascii") == 1 {
		return buildSTLASCII(s)
	}
	return buildSTLBinary(s)
}

var formats = map[string]*format{
	"ReadSTL":      {target: "ReadSTL", build: buildSTL, dict: stlDict},
	"ReadOFF":      {target: "ReadOFF", build: buildOFF, dict: offDict},
	"ReadColorPLY": {target: "ReadColorPLY", build: buildPLYColour, dict: plyDict},
	"PLYReader":    {target: "PLYReader", build: buildPLYGeneric, dict: plyDict},
	"DecodeCSV":    {target: "DecodeCSV", build: buildCSV, dict: csvDict},
}

var targetOrder = []string{"ReadSTL", "ReadOFF", "ReadColorPLY", "PLYReader", "DecodeCSV"}

// ---------------------------------------------------------------------------
// mutation layer

func hostileCounts(n int64) []int64 {
	return []int64{-1, 0, 1, n - 1, n + 1, 1<<31 - 1, 1 << 31, 1<<32 - 1, 1<<63 - 1}
}

func setInt(p *piece, v int64) {
	if p.Enc == "" {
		p.B = []byte(strconv.FormatInt(v, 10))
	} else {
		p.B = encodeInt(p.Enc, v)
	}
}

func withRole(f *file, role string) []int {
	var out []int
	for i, p := range f.Pieces {
		if p.Role == role {
			out = append(out, i)
		}
	}
	return out
}

var unknownTypes = []string{"int64", "uint64", "list", "float16", "INT", "long", "x"}

// mutate applies one single-field corruption and returns its description.
func mutate(s src, f *file) string {
	ops := []string{"count", "count", "len", "len", "index", "index", "type", "rmprop", "rmallprops", "duptok", "deltok", "flip", "flip", "swaptok", "instok", "numtok"}
	for try := 0; try < 8; try++ {
		op := pick(s, ops, "op")
		switch op {
		case "count", "len":
			idx := withRole(f, op)
			if len(idx) == 0 {
				continue
			}
			i := pick(s, idx, "field")
			v := pick(s, hostileCounts(f.Pieces[i].Val), "value")
			setInt(&f.Pieces[i], v)
			return fmt.Sprintf("%s#%d=%d", op, i, v)
		case "index":
			idx := withRole(f, "index")
			if len(idx) == 0 {
				continue
			}
			i := pick(s, idx, "field")
			v := pick(s, []int64{-1, f.Pieces[i].Ref, 1<<31 - 1, f.Pieces[i].Ref - 1, 0}, "value")
			setInt(&f.Pieces[i], v)
			return fmt.Sprintf("index#%d=%d", i, v)
		case "type":
			idx := withRole(f, "type")
			if len(idx) == 0 {
				continue
			}
			i := pick(s, idx, "field")
			nt := pick(s, append(append([]string{}, plyAllTypes...), unknownTypes...), "newtype")
			f.Pieces[i].B = []byte(nt)
			return fmt.Sprintf("type#%d=%s", i, nt)
		case "rmprop", "rmallprops":
			var groups []int
			seen := map[int]bool{}
			for _, p := range f.Pieces {
				if p.Group > 0 && !seen[p.Group] {
					seen[p.Group] = true
					groups = append(groups, p.Group)
				}
			}
			if len(groups) == 0 {
				continue
			}
			g := pick(s, groups, "group")
			elem := 0
			for _, p := range f.Pieces {
				if p.Group == g {
					elem = p.Elem
				}
			}
			var kept []piece
			for _, p := range f.Pieces {
				if (op == "rmprop" && p.Group == g) || (op == "rmallprops" && p.Group > 0 && p.Elem == elem) {
					continue
				}
				kept = append(kept, p)
			}
			f.Pieces = kept
			return fmt.Sprintf("%s g%d e%d", op, g, elem)
		case "duptok", "deltok", "swaptok", "instok", "numtok":
			if len(f.Pieces) == 0 {
				continue
			}
			i := s.Int(0, len(f.Pieces)-1, "piece")
			switch op {
			case "duptok":
				f.Pieces = append(f.Pieces[:i+1], append([]piece{f.Pieces[i]}, f.Pieces[i+1:]...)...)
			case "deltok":
				f.Pieces = append(f.Pieces[:i:i], f.Pieces[i+1:]...)
			case "swaptok":
				j := s.Int(0, len(f.Pieces)-1, "other")
				f.Pieces[i].B, f.Pieces[j].B = f.Pieces[j].B, f.Pieces[i].B
			case "instok":
				tok := pick(s, hostileTokens, "token")
				f.Pieces = append(f.Pieces[:i+1], append([]piece{{B: []byte(" " + tok), Role: "num"}}, f.Pieces[i+1:]...)...)
			case "numtok":
				idx := withRole(f, "num")
				if len(idx) == 0 {
					continue
				}
				i = pick(s, idx, "field")
				f.Pieces[i].B = []byte(pick(s, hostileTokens, "token"))
			}
			return fmt.Sprintf("%s#%d", op, i)
		case "flip":
			total := 0
			for _, p := range f.Pieces {
				total += len(p.B)
			}
			if total == 0 {
				continue
			}
			pos := s.Int(0, total-1, "pos")
			for i := range f.Pieces {
				if pos < len(f.Pieces[i].B) {
					b := append([]byte(nil), f.Pieces[i].B...)
					if m := s.Int(0, 15, "mask"); m < 8 {
						b[pos] ^= 1 << m
					} else {
						b[pos] = []byte{0, 0xff, '\n', ' ', '-', '0', '9', 0x80}[m-8]
					}
					f.Pieces[i].B = b
					return fmt.Sprintf("flip@%d", pos)
				}
				pos -= len(f.Pieces[i].B)
			}
		}
	}
	return "none"
}

// ---------------------------------------------------------------------------
// token dictionaries (domain b)

var hostileTokens = []string{"-1", "0", "1", "3", "4", "255", "256", "65535", "65536", "2147483647", "2147483648", "4294967295", "4294967296",
	"9223372036854775807", "9223372036854775808", "18446744073709551615", "-9223372036854775808", "1e309", "-1e309", "1e-400", "NaN", "nan", "Inf", "-inf",
	"0x1p-2", "1_000", "+5", ".5", "5.", "1e", "--1", "", "1,2"}

var stlDict = []string{"solid", "solid a\n", "facet normal 0 0 1\n", "facet", "normal", "outer loop\n", "vertex 0 0 0\n", "vertex 1 0 0\n", "vertex 0 1 0\n", "vertex",
	"endloop\n", "endfacet\n", "endsolid", "endsolid a\n", " ", "\n", "\r\n", "\t", "\x00", "\xff", "\x80",
	"\x00\x00\x00\x00", "\x01\x00\x00\x00", "\xff\xff\xff\xff", "\xff\xff\xff\x7f", "\x00\x00\x80\x3f", "\x00\x00\xc0\x7f"}

var offDict = []string{"OFF", "OFF\n", "OFF ", "COFF\n", "3 0 1 2\n", "4 0 1 2 3\n", "0 0 0\n", "1 0 0\n", "1 1 0\n", "0 1 0\n", "0.5 0.5 0\n", " ", "\n", "\r\n", "\t", "#", "\x00"}

var plyDict = []string{"ply\n", "format ascii 1.0\n", "format binary_little_endian 1.0\n", "format binary_big_endian 1.0\n", "format", "1.0", "ascii",
	"element vertex ", "element face ", "element ", "element", "vertex", "face", "edge",
	"property float x\n", "property float y\n", "property float z\n", "property uchar red\n", "property uchar green\n", "property uchar blue\n",
	"property list uchar int vertex_index\n", "property list ", "property ", "property", "list", "vertex_index",
	"char", "uchar", "short", "ushort", "int", "uint", "float", "double", "int8", "uint8", "int16", "uint16", "int32", "uint32", "float32", "float64", "int64",
	"comment x\n", "comment", "end_header\n", "end_header", " ", "\n", "\r\n", "\x00", "\x03", "\xff", "\x80",
	"\x00\x00\x00\x00", "\x01\x00\x00\x00", "\x00\x00\x00\x01", "\xff\xff\xff\xff", "\xff\xff\xff\x7f", "\x7f\xff\xff\xff", "\x00\x00\x80\x3f",
	"0 0 0 255 255 255\n", "3 0 1 2\n"}

var csvDict = []string{",", ",", "\n", "\r\n", "\r", "\"", "\"\"", " ", "0,0,1,1\n", "1.5", "-2E+10", ";", "\x00", "\xff", "\xef\xbb\xbf"}

// count token: mostly small, sometimes hostile
func countTok(s src) string {
	if s.Int(0, 3, "hostile") == 0 {
		return pick(s, hostileTokens, "token")
	}
	return strconv.Itoa(s.Int(0, 5, "small"))
}

func numTok(s src) string {
	if s.Int(0, 5, "hostile") == 0 {
		return pick(s, hostileTokens, "token")
	}
	return floatTok(s)
}

// skeleton writes the outline of a file of the target's format out of dictionary
// tokens: structurally plausible (so that header parsing is usually passed), with
// counts, types, arities and values that need not agree with each other.
func skeleton(s src, target string, b *bytes.Buffer) {
	switch target {
	case "ReadSTL":
		if s.Int(0, 1, "ascii") == 1 {
			b.WriteString("solid" + pick(s, []string{"", " s", "\t"}, "name") + "\n")
			for i := s.Int(0, 12, "lines"); i > 0; i-- {
				switch s.Int(0, 5, "line") {
				case 0:
					b.WriteString("facet normal " + numTok(s) + " " + numTok(s) + " " + numTok(s) + "\n")
				case 1, 2:
					b.WriteString("vertex " + numTok(s) + " " + numTok(s) + " " + numTok(s) + "\n")
				case 3:
					b.WriteString("endfacet\n")
				case 4:
					b.WriteString(pick(s, []string{"outer loop\n", "endloop\n", "endsolid\n", "endsolid", "\n", "vertex 1 2\n", "facet normal 0 0\n"}, "other"))
				default:
					b.WriteString(pick(s, stlDict, "token"))
				}
			}
			return
		}
		b.Write(make([]byte, 80))
		n := s.Int(0, 4, "records")
		cnt := int64(n + s.Int(-1, 1, "off"))
		if s.Int(0, 2, "hostile") == 0 {
			cnt = pick(s, hostileCounts(int64(n)), "count")
		}
		b.Write(encodeInt("u32le", cnt))
		for i := 0; i < n*50+s.Int(-3, 3, "slack"); i++ {
			b.WriteByte(byte(s.Int(0, 255, "byte")))
		}
	case "ReadOFF":
		b.WriteString("OFF" + pick(s, []string{"\n", " ", "\n", "  "}, "sep"))
		nv, nf := s.Int(0, 6, "nv"), s.Int(0, 4, "nf")
		hv, hf := strconv.Itoa(nv), strconv.Itoa(nf)
		if s.Int(0, 4, "hostile") == 0 {
			hv = countTok(s)
		}
		if s.Int(0, 4, "hostile") == 0 {
			hf = countTok(s)
		}
		b.WriteString(hv + " " + hf + " " + countTok(s) + "\n")
		for i := 0; i < nv; i++ {
			b.WriteString(numTok(s) + " " + numTok(s) + " " + numTok(s) + "\n")
		}
		for i := 0; i < nf; i++ {
			k := s.Int(0, 5, "arity")
			if s.Int(0, 5, "hostile") == 0 {
				b.WriteString(countTok(s))
			} else {
				b.WriteString(strconv.Itoa(k))
			}
			for j := 0; j < k; j++ {
				if s.Int(0, 9, "hostile") == 0 {
					b.WriteString(" " + countTok(s))
				} else {
					b.WriteString(" " + strconv.Itoa(s.Int(0, max(nv, 1), "index")))
				}
			}
			b.WriteString("\n")
		}
	case "ReadColorPLY", "PLYReader":
		format := pick(s, plyFormats, "format")
		b.WriteString("ply\nformat " + format + " 1.0\n")
		plyCount := func() string {
			if s.Int(0, 7, "hostile") == 0 {
				return pick(s, hostileTokens, "token")
			}
			return strconv.Itoa(s.Int(0, 4, "small"))
		}
		types := append(append(append([]string{}, plyAllTypes...), plyAllTypes...), "int64", "list")
		names := []string{"x", "y", "z", "red", "green", "blue", "vertex_index", "foo"}
		if target == "ReadColorPLY" && s.Int(0, 1, "standard") == 0 {
			b.WriteString("element vertex " + plyCount() + "\nproperty float x\nproperty float y\nproperty float z\nproperty uchar red\nproperty uchar green\nproperty uchar blue\n")
			b.WriteString("element face " + plyCount() + "\nproperty list uchar int vertex_index\n")
		} else {
			for e := s.Int(0, 3, "elements"); e > 0; e-- {
				b.WriteString("element " + pick(s, []string{"vertex", "face", "edge"}, "ename") + " " + plyCount() + "\n")
				for p := s.Int(0, 4, "props"); p > 0; p-- {
					b.WriteString("property ")
					if s.Int(0, 2, "list") == 0 {
						b.WriteString("list " + pick(s, types, "lentype") + " ")
					}
					b.WriteString(pick(s, types, "type") + " " + pick(s, names, "pname") + "\n")
				}
			}
		}
		b.WriteString("end_header\n")
		for i := s.Int(0, 30, "values"); i > 0; i-- {
			if format == "ascii" {
				b.WriteString(numTok(s) + pick(s, []string{" ", " ", " ", "\n"}, "sep"))
			} else if s.Int(0, 3, "kind") == 0 {
				b.Write(encodeInt("u32le", pick(s, hostileCounts(3), "word")))
			} else {
				b.WriteByte(byte(s.Int(0, 4, "smallbyte")))
			}
		}
	case "DecodeCSV":
		for r := s.Int(0, 6, "rows"); r > 0; r-- {
			nf := 4
			if s.Int(0, 5, "arity") == 0 {
				nf = s.Int(1, 6, "nf")
			}
			for j := 0; j < nf; j++ {
				if j > 0 {
					b.WriteString(",")
				}
				b.WriteString(numTok(s))
			}
			b.WriteString(pick(s, []string{"\n", "\n", "\r\n", ""}, "eol"))
		}
	}
}

// soup draws a byte string from a format's token dictionary.
func soup(s src, fm *format) ([]byte, string) {
	var b bytes.Buffer
	mode := s.Int(0, 5, "mode")
	note := "soup"
	if mode >= 4 {
		skeleton(s, fm.target, &b)
		note = "skeleton+soup"
	} else if mode >= 2 {
		// a valid file's prefix (often the whole header) followed by dictionary tokens
		v := fm.build(s).bytes()
		cut := len(v)
		if mode == 3 && len(v) > 0 {
			cut = s.Int(0, len(v), "cut")
		}
		b.Write(v[:cut])
		note = "prefix+soup"
	}
	n := s.Int(0, 30, "ntokens")
	if mode >= 4 {
		n = s.Int(0, 4, "ntokens")
	}
	for i := 0; i < n && b.Len() < maxInput; i++ {
		switch k := s.Int(0, 9, "tokenkind"); {
		case k <= 5:
			b.WriteString(pick(s, fm.dict, "token"))
		case k <= 7:
			b.WriteString(pick(s, hostileTokens, "number"))
			b.WriteString(pick(s, []string{" ", " ", "\n", ","}, "sep"))
		default:
			for j := s.Int(1, 4, "nraw"); j > 0; j-- {
				b.WriteByte(byte(s.Int(0, 255, "byte")))
			}
		}
	}
	out := b.Bytes()
	if len(out) > maxInput {
		out = out[:maxInput]
	}
	return out, note
}
