package c16

// Native fuzz targets (thorough tier; names fixed by the driver's FUZZ table).
// Same oracle as the kit clauses; a failure is written as a replay record for the
// clause "C16/<target>/bytes" before the target fails.

import (
	"crypto/sha1"
	"encoding/json"
	"fmt"
	"os"
	"path/filepath"
	"strings"
	"sync"
	"sync/atomic"
	"testing"
	"verifharness/kit"
)

var fuzzExcluded sync.Map // tag -> *atomic.Int64

func noteFuzzExclusion(tag string) {
	v, _ := fuzzExcluded.LoadOrStore(tag, new(atomic.Int64))
	n := v.(*atomic.Int64).Add(1)
	dir := os.Getenv("VERIF_FUZZ_OUT")
	if dir == "" || (n&(n-1) != 0 && n%4096 != 0) {
		return
	}
	os.WriteFile(filepath.Join(dir, fmt.Sprintf("excluded-%s.%d.txt", tag, os.Getpid())), []byte(fmt.Sprintf("%d\n", n)), 0o644)
}

func firstLine(s string) string {
	if i := strings.IndexByte(s, '\n'); i >= 0 {
		return s[:i]
	}
	return s
}

func fuzzOne(t *testing.T, target string, data []byte) {
	if len(data) > maxInput {
		return
	}
	var rep report
	// the driver passes the tags of the still-present known findings in VERIF_EXCLUDE
	var ex exclusions
	for _, tag := range strings.Split(os.Getenv("VERIF_EXCLUDE"), ",") {
		if tag == offTag {
			ex.offPolygon = true
		}
	}
	excluded, err := checkTarget(target, data, ex, &rep)
	for _, tag := range excluded {
		noteFuzzExclusion(tag)
	}
	if ex.offPolygon && isOFFDegeneratePanic(err) {
		// the known finding's panic from a polygon face that the class predicate let through
		// (the kit clauses would report it): counted, and the fuzzer keeps searching
		noteFuzzExclusion(offTag + "-by-message")
		return
	}
	if err == nil {
		return
	}
	clause := "C16/" + target + "/bytes"
	if dir := os.Getenv("VERIF_FUZZ_OUT"); dir != "" {
		rec, _ := json.Marshal(map[string]any{"clause": clause, "msg": firstLine(err.Error()), "case": byteCase{Data: data}})
		os.MkdirAll(dir, 0o755)
		sum := sha1.Sum(data)
		os.WriteFile(filepath.Join(dir, fmt.Sprintf("crash-%x.json", sum[:8])), rec, 0o644)
	}
	t.Fatalf("%s: %v", clause, err)
}

func seed(f *testing.F, target string) {
	fm := formats[target]
	for i := 0; i < 24; i++ {
		b := fm.build(newLCG(i)).bytes()
		f.Add(b)
		if len(b) > 3 {
			f.Add(b[:len(b)/2])
			f.Add(b[:len(b)-1])
		}
	}
	// hostile constants: each count / length / index field of a few valid files set to the corner values
	for i := 0; i < 6; i++ {
		base := fm.build(newLCG(i))
		for j, p := range base.Pieces {
			if p.Role != "count" && p.Role != "len" && p.Role != "index" {
				continue
			}
			for _, v := range []int64{-1, 0, 1<<31 - 1, 1 << 31, 1<<32 - 1, 1<<63 - 1} {
				g := fm.build(newLCG(i))
				setInt(&g.Pieces[j], v)
				f.Add(g.bytes())
			}
		}
	}
	for _, tok := range fm.dict {
		f.Add([]byte(tok))
	}
	f.Add([]byte{})
}

func FuzzReadSTL(f *testing.F) {
	seed(f, "ReadSTL")
	f.Fuzz(func(t *testing.T, data []byte) { fuzzOne(t, "ReadSTL", data) })
}

func FuzzReadOFF(f *testing.F) {
	seed(f, "ReadOFF")
	f.Fuzz(func(t *testing.T, data []byte) { fuzzOne(t, "ReadOFF", data) })
}

func FuzzReadColorPLY(f *testing.F) {
	seed(f, "ReadColorPLY")
	f.Fuzz(func(t *testing.T, data []byte) { fuzzOne(t, "ReadColorPLY", data) })
}

func FuzzPLYReader(f *testing.F) {
	seed(f, "PLYReader")
	f.Fuzz(func(t *testing.T, data []byte) { fuzzOne(t, "PLYReader", data) })
}

func FuzzDecodeCSV(f *testing.F) {
	seed(f, "DecodeCSV")
	f.Fuzz(func(t *testing.T, data []byte) { fuzzOne(t, "DecodeCSV", data) })
}

// TestCorpusToRecord converts the input go test saved after a fuzz worker died (VERIF_FUZZ_CORPUS_FILE, target in
// VERIF_FUZZ_TARGET) into a replay record of the clause "C16/<target>/bytes" under VERIF_FUZZ_OUT, without running the
// oracle; the driver then replays that record in a fresh process to decide whether the death reproduces.
func TestCorpusToRecord(t *testing.T) {
	path := os.Getenv("VERIF_FUZZ_CORPUS_FILE")
	if path == "" {
		t.Skip("driver helper")
	}
	data, err := kit.ReadFuzzCorpusBytes(path)
	if err != nil {
		t.Fatal(err)
	}
	target := strings.TrimPrefix(os.Getenv("VERIF_FUZZ_TARGET"), "Fuzz")
	clause := "C16/" + target + "/bytes"
	rec, _ := json.Marshal(map[string]any{"clause": clause, "msg": "the fuzz worker process died on this input", "case": byteCase{Data: data}})
	dir := os.Getenv("VERIF_FUZZ_OUT")
	os.MkdirAll(dir, 0o755)
	sum := sha1.Sum(data)
	if err := os.WriteFile(filepath.Join(dir, fmt.Sprintf("crash-%x.json", sum[:8])), rec, 0o644); err != nil {
		t.Fatal(err)
	}
}
