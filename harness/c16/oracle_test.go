package c16

// The totality oracle: every decoder call runs under (1) a recover (no panic), (2)
// an allocation meter (TotalAlloc delta <= 1 MiB + 64 n + 2 n^2), (3) row
// accounting (a row API may not return rows that the input cannot hold, and never
// more than 10^6 consecutive rows without the underlying reader advancing) and (4)
// the result contract (data, nil) or (_, err).  Hangs are the kit watchdog's job.

import (
	"bytes"
	"errors"
	"fmt"
	"io"
	"math"
	"runtime"
	"runtime/debug"
	"strings"
	"sync"

	"github.com/unixpickle/model3d/fileformats"
	"github.com/unixpickle/model3d/model2d"
	"github.com/unixpickle/model3d/model3d"
)

const maxStalledRows = 1000000

// countingReader counts the bytes handed to the decoder.  Reader behaviours
// ("fault sequences"): "" delivers as much as asked for, "1-byte" one byte per
// call (every multi-byte field arrives as a sequence of short reads), "fail" ends
// the stream with a non-EOF error instead of io.EOF.
type countingReader struct {
	r     *bytes.Reader
	n     int64
	chunk int
	fail  error
}

var errInjected = errors.New("injected read failure")

var readerModes = []string{"", "1-byte", "fail"}

func (c *countingReader) Read(p []byte) (int, error) {
	if c.chunk > 0 && len(p) > c.chunk {
		p = p[:c.chunk]
	}
	n, err := c.r.Read(p)
	c.n += int64(n)
	if err == io.EOF && c.fail != nil {
		err = c.fail
	}
	return n, err
}

func newCR(data []byte, mode string) *countingReader {
	c := &countingReader{r: bytes.NewReader(data)}
	switch mode {
	case "1-byte":
		c.chunk = 1
	case "fail":
		c.fail = errInjected
	}
	return c
}

func apiName(api, mode string) string {
	if mode == "" {
		return api
	}
	return api + " [reader: " + mode + "]"
}

// rowMeter implements the "rows without consuming input" clause.
type rowMeter struct {
	cr      *countingReader
	last    int64
	stalled int
	rows    int
}

// row records one successfully returned row; it returns an error when more than
// maxStalledRows consecutive rows were returned without the reader advancing.
func (m *rowMeter) row() error {
	m.rows++
	if m.cr.n != m.last {
		m.last = m.cr.n
		m.stalled = 0
		return nil
	}
	m.stalled++
	if m.stalled > maxStalledRows {
		return fmt.Errorf("returned %d consecutive rows without reading from the input (%d bytes, all consumed): loops without consuming input", m.stalled, m.cr.n)
	}
	return nil
}

// ---------------------------------------------------------------------------
// allocation meter

func allocBound(n int) uint64 { return 1<<20 + 64*uint64(n) + 2*uint64(n)*uint64(n) }

var (
	baselineOnce sync.Once
	baseline     uint64
)

func measure(f func()) uint64 {
	var m0, m1 runtime.MemStats
	runtime.ReadMemStats(&m0)
	f()
	runtime.ReadMemStats(&m1)
	return m1.TotalAlloc - m0.TotalAlloc
}

// calibrate measures what the meter itself reports for an empty decoder call
// (closure, recover frame): the smallest of five samples after a collection.
func calibrate() {
	runtime.GC()
	baseline = math.MaxUint64
	for i := 0; i < 5; i++ {
		d := measure(func() {
			func() {
				defer func() { recover() }()
			}()
		})
		if d < baseline {
			baseline = d
		}
	}
}

type violation struct {
	kind  string // panic | alloc | rows | contract
	api   string
	msg   string
	panic string // panic value text for kind == panic
}

func (v *violation) Error() string { return v.api + ": " + v.msg }

// guard runs one decoder call sequence.  f must build its own reader from the
// input bytes (it may be run again to re-measure) and returns an oracle error for
// the rows / contract clauses.
func guard(api string, n int, f func() error) error {
	baselineOnce.Do(calibrate)
	var perr error
	var pval any
	var stack string
	run := func() uint64 {
		perr, pval, stack = nil, nil, ""
		d := measure(func() {
			func() {
				defer func() {
					if r := recover(); r != nil {
						pval = r
						stack = string(debug.Stack())
					}
				}()
				perr = f()
			}()
		})
		if d < baseline {
			return 0
		}
		return d - baseline
	}
	d := run()
	if pval != nil {
		if len(stack) > 2500 {
			stack = stack[:2500]
		}
		return &violation{kind: "panic", api: api, panic: fmt.Sprint(pval), msg: fmt.Sprintf("panic: %v\n%s", pval, stack)}
	}
	if perr != nil {
		return perr
	}
	if bound := allocBound(n); d > bound {
		// allocation by another goroutine between the two samples would be counted too: only the
		// smallest of three measurements is held against the decoder
		for i := 0; i < 2 && d > bound; i++ {
			runtime.GC()
			if d2 := run(); d2 < d {
				d = d2
			}
			if pval != nil || perr != nil {
				return nil // not reproducible: not a verdict
			}
		}
		if d > bound {
			return &violation{kind: "alloc", api: api, msg: fmt.Sprintf("allocated %d bytes decoding a %d-byte input (bound 1 MiB + 64 n + 2 n^2 = %d): allocation out of proportion to the input", d, n, allocBound(n))}
		}
	}
	return nil
}

func rowsErr(api string, f string, a ...any) error {
	return &violation{kind: "rows", api: api, msg: fmt.Sprintf(f, a...)}
}

func contractErr(api string, f string, a ...any) error {
	return &violation{kind: "contract", api: api, msg: fmt.Sprintf(f, a...)}
}

// ---------------------------------------------------------------------------
// per-format checks

type report struct {
	accepted bool // the header parser accepted the input (record decoding was reached)
	ok       bool // the whole-file API returned data without error
	labels   []string
}

func (r *report) label(s string) { r.labels = append(r.labels, s) }

// checkSTL: every STL facet occupies at least 48 bytes (binary record: 50; ASCII:
// three "vertex a b c" lines of >= 13 bytes and "endfacet" + newline), so no reader
// can legitimately return more than n/48 triangles from n bytes.
func checkSTL(data []byte, mode string, rep *report) error {
	n := len(data)
	maxRows := n / 48
	if err := guard(apiName("model3d.ReadSTL", mode), n, func() error {
		tris, err := model3d.ReadSTL(newCR(data, mode))
		if err != nil {
			return nil
		}
		rep.ok = true
		if len(tris) > maxRows {
			return rowsErr(apiName("model3d.ReadSTL", mode), "returned %d triangles from %d bytes (a facet needs at least 48 bytes)", len(tris), n)
		}
		for i, t := range tris {
			if t == nil {
				return contractErr(apiName("model3d.ReadSTL", mode), "nil error but triangle %d is nil", i)
			}
		}
		return nil
	}); err != nil {
		return err
	}
	return guard(apiName("fileformats.STLReader", mode), n, func() error {
		cr := newCR(data, mode)
		r, err := fileformats.NewSTLReader(cr)
		if err != nil {
			return nil
		}
		if r == nil {
			return contractErr(apiName("fileformats.NewSTLReader", mode), "nil error and nil reader")
		}
		rep.accepted = true
		if r.IsBinary() {
			rep.label("stl:binary")
		} else {
			rep.label("stl:ascii")
		}
		m := rowMeter{cr: cr}
		for {
			_, _, err := r.ReadTriangle()
			if err != nil {
				break
			}
			if err := m.row(); err != nil {
				return rowsErr(apiName("STLReader.ReadTriangle", mode), "%v", err)
			}
			if m.rows > maxRows {
				return rowsErr(apiName("STLReader.ReadTriangle", mode), "returned %d triangles from %d bytes (a facet needs at least 48 bytes): rows without input", m.rows, n)
			}
			// binary layout: 80-byte header, 4-byte count, 50 bytes per record
			if r.IsBinary() && 84+50*m.rows > n {
				return rowsErr(apiName("STLReader.ReadTriangle", mode), "returned %d binary records from %d bytes (84 + 50 per record needed): a short read was taken for a record", m.rows, n)
			}
		}
		r.ReadTriangle() // asking again after an error must not panic either
		return nil
	})
}

// checkOFF: ReadFace returns at most one face per input line; ReadOFF at most
// one triangle per two input bytes (a k-gon line has at least 2k+1 bytes and
// yields k-2 triangles).  The row API runs first: the faces it returns are what
// ReadOFF hands to the triangulator, which is how membership in the excluded
// class of the known finding off-degenerate-polygon is decided (skipped = ReadOFF
// was not run because a face with >= 4 vertices is outside general convex position).
func checkOFF(data []byte, mode string, excludePolygons bool, rep *report) (skipped bool, err error) {
	n := len(data)
	lines := bytes.Count(data, []byte{'\n'}) + 1
	degenerate := false
	if err := guard(apiName("fileformats.OFFReader", mode), n, func() error {
		degenerate = false
		cr := newCR(data, mode)
		r, err := fileformats.NewOFFReader(cr)
		if err != nil {
			return nil
		}
		if r == nil {
			return contractErr(apiName("fileformats.NewOFFReader", mode), "nil error and nil reader")
		}
		rep.accepted = true
		m := rowMeter{cr: cr}
		for {
			face, err := r.ReadFace()
			if err != nil {
				break
			}
			if err := m.row(); err != nil {
				return rowsErr(apiName("OFFReader.ReadFace", mode), "%v", err)
			}
			if m.rows > lines {
				return rowsErr(apiName("OFFReader.ReadFace", mode), "returned %d faces from an input of %d lines: rows without input", m.rows, lines)
			}
			if len(face) >= 4 {
				rep.label("off:polygon-face")
				if !generalConvex(face) {
					degenerate = true
				}
			}
		}
		r.ReadFace()
		return nil
	}); err != nil {
		return false, err
	}
	if excludePolygons && degenerate {
		return true, nil
	}
	return false, guard(apiName("model3d.ReadOFF", mode), n, func() error {
		tris, err := model3d.ReadOFF(newCR(data, mode))
		if err != nil {
			return nil
		}
		rep.ok = true
		if len(tris) > n/2 {
			return rowsErr(apiName("model3d.ReadOFF", mode), "returned %d triangles from %d bytes", len(tris), n)
		}
		for i, t := range tris {
			if t == nil {
				return contractErr(apiName("model3d.ReadOFF", mode), "nil error but triangle %d is nil", i)
			}
		}
		return nil
	})
}

func checkColorPLY(data []byte, mode string, rep *report) error {
	n := len(data)
	if mode == "" {
		// classification only: did the input get past the header parser?
		if err := guard("fileformats.NewPLYReader", n, func() error {
			if r, err := fileformats.NewPLYReader(newCR(data, mode)); err == nil && r != nil {
				rep.accepted = true
			}
			return nil
		}); err != nil {
			return err
		}
	}
	return guard(apiName("model3d.ReadColorPLY", mode), n, func() error {
		tris, colors, err := model3d.ReadColorPLY(newCR(data, mode))
		if err != nil {
			return nil
		}
		rep.ok = true
		if colors == nil {
			return contractErr(apiName("model3d.ReadColorPLY", mode), "nil error and nil colour map")
		}
		// a face row has at least 7 bytes in ASCII ("3 0 0 0") and 13 in binary
		if len(tris)*7 > n {
			return rowsErr(apiName("model3d.ReadColorPLY", mode), "returned %d triangles from %d bytes", len(tris), n)
		}
		for i, t := range tris {
			if t == nil {
				return contractErr(apiName("model3d.ReadColorPLY", mode), "nil error but triangle %d is nil", i)
			}
		}
		return nil
	})
}

// minRowBytes is the least number of input bytes a row of the element occupies.
func minRowBytes(h fileformats.PLYHeader, e *fileformats.PLYElement) int {
	total := 0
	for i, p := range e.Properties {
		if h.Format == fileformats.PLYFormatASCII {
			total++ // at least a one-character token
			if i > 0 {
				total++ // and a separator between tokens
			}
			continue
		}
		t := p.ElemType
		if p.LenType != fileformats.PLYPropertyTypeNone {
			t = p.LenType
		}
		total += plySize(string(t))
	}
	return total
}

func checkPLYReader(data []byte, mode string, rep *report) error {
	n := len(data)
	if err := guard(apiName("fileformats.PLYReader", mode), n, func() error {
		cr := newCR(data, mode)
		r, err := fileformats.NewPLYReader(cr)
		if err != nil {
			return nil
		}
		if r == nil {
			return contractErr(apiName("fileformats.NewPLYReader", mode), "nil error and nil reader")
		}
		rep.accepted = true
		h := r.Header()
		switch h.Format {
		case fileformats.PLYFormatASCII:
			rep.label("ply:ascii")
		case fileformats.PLYFormatBinaryLittle:
			rep.label("ply:binary-le")
		case fileformats.PLYFormatBinaryBig:
			rep.label("ply:binary-be")
		}
		m := rowMeter{cr: cr}
		used := 0
		// the body starts after the first "end_header\n" (found here, not taken from the reader)
		body := n
		if i := bytes.Index(data, []byte("end_header\n")); i >= 0 {
			body = n - (i + 11)
		}
		for {
			vals, el, err := r.Read()
			if err != nil {
				if errors.Is(err, io.EOF) {
					rep.ok = true
				}
				break
			}
			if err := m.row(); err != nil {
				return rowsErr(apiName("PLYReader.Read", mode), "%v", err)
			}
			if el == nil {
				return contractErr(apiName("PLYReader.Read", mode), "nil error and nil element")
			}
			if len(vals) != len(el.Properties) {
				return contractErr(apiName("PLYReader.Read", mode), "row has %d values for %d properties", len(vals), len(el.Properties))
			}
			for i, v := range vals {
				if v == nil {
					return contractErr(apiName("PLYReader.Read", mode), "nil error but value %d of the row is nil", i)
				}
				if l, ok := v.(fileformats.PLYValueList); ok {
					rep.label("ply:list-row")
					if l.Length == nil {
						return contractErr(apiName("PLYReader.Read", mode), "list value without a length")
					}
				}
			}
			if mb := minRowBytes(h, el); mb > 0 {
				used += mb
				if h.Format == fileformats.PLYFormatASCII && m.rows > 1 {
					used++ // the line break before this row
				}
				if used > body {
					return rowsErr(apiName("PLYReader.Read", mode), "returned %d rows which need at least %d bytes, but only %d bytes follow the header: rows without input", m.rows, used, body)
				}
			}
		}
		r.Read()
		return nil
	}); err != nil {
		return err
	}
	if mode != "" {
		return nil
	}
	// the header decoder on its own: the whole input as a string, and the header part
	if err := guard(apiName("fileformats.NewPLYHeaderDecode", mode), n, func() error {
		h, err := fileformats.NewPLYHeaderDecode(string(data))
		if err == nil && h == nil {
			return contractErr(apiName("fileformats.NewPLYHeaderDecode", mode), "nil error and nil header")
		}
		return nil
	}); err != nil {
		return err
	}
	if i := bytes.Index(data, []byte("end_header\n")); i >= 0 && i+11 < len(data) {
		hd := string(data[:i+11])
		return guard(apiName("fileformats.NewPLYHeaderDecode", mode), len(hd), func() error {
			h, err := fileformats.NewPLYHeaderDecode(hd)
			if err == nil && h == nil {
				return contractErr(apiName("fileformats.NewPLYHeaderDecode", mode), "nil error and nil header")
			}
			if err == nil {
				rep.label("ply:header-decoded")
			}
			return nil
		})
	}
	return nil
}

// checkCSV: a row needs four fields, i.e. at least "0,0,0,0" and a line break
// (the last row may omit it): at most (n+1)/8 rows.
func checkCSV(data []byte, mode string, rep *report) error {
	n := len(data)
	maxRows := (n + 1) / 8
	if err := guard("model2d.DecodeCSV", n, func() error {
		if mode != "" {
			return nil // DecodeCSV takes bytes, not a reader
		}
		segs, err := model2d.DecodeCSV(data)
		if err != nil {
			return nil
		}
		rep.ok = true
		if len(segs) > maxRows {
			return rowsErr(apiName("model2d.DecodeCSV", mode), "returned %d segments from %d bytes", len(segs), n)
		}
		for i, s := range segs {
			if s == nil {
				return contractErr(apiName("model2d.DecodeCSV", mode), "nil error but segment %d is nil", i)
			}
		}
		return nil
	}); err != nil {
		return err
	}
	return guard(apiName("fileformats.SegmentCSVReader", mode), n, func() error {
		cr := newCR(data, mode)
		r := fileformats.NewSegmentCSVReader(cr)
		m := rowMeter{cr: cr}
		for {
			_, err := r.Read()
			if err == io.EOF || errors.Is(err, errInjected) {
				break
			}
			if err != nil {
				// the reader may be asked again after a bad row (csv readers resynchronise on the next line)
				if m.rows++; m.rows > n+2 {
					return rowsErr(apiName("SegmentCSVReader.Read", mode), "returned %d results (rows and row errors) from %d bytes without reaching io.EOF", m.rows, n)
				}
				continue
			}
			rep.accepted = true // at least one row was decoded
			if err := m.row(); err != nil {
				return rowsErr(apiName("SegmentCSVReader.Read", mode), "%v", err)
			}
			if m.rows > n+2 {
				return rowsErr(apiName("SegmentCSVReader.Read", mode), "returned %d results from %d bytes", m.rows, n)
			}
		}
		return nil
	})
}

// ---------------------------------------------------------------------------
// the excluded OFF input class (known finding off-degenerate-polygon)

// generalConvex reports whether the polygon is finite, of moderate size, planar
// (to 1e-6 of its diameter), strictly convex with every corner turning by at
// least ~0.06 degrees the same way, and winds around once.
func generalConvex(p [][3]float64) bool {
	k := len(p)
	var c [3]float64
	for _, v := range p {
		for j := 0; j < 3; j++ {
			if math.IsNaN(v[j]) || math.IsInf(v[j], 0) || math.Abs(v[j]) > 1e6 {
				return false
			}
			c[j] += v[j] / float64(k)
		}
	}
	sub := func(a, b [3]float64) [3]float64 { return [3]float64{a[0] - b[0], a[1] - b[1], a[2] - b[2]} }
	cross := func(a, b [3]float64) [3]float64 {
		return [3]float64{a[1]*b[2] - a[2]*b[1], a[2]*b[0] - a[0]*b[2], a[0]*b[1] - a[1]*b[0]}
	}
	dot := func(a, b [3]float64) float64 { return a[0]*b[0] + a[1]*b[1] + a[2]*b[2] }
	norm := func(a [3]float64) float64 { return math.Sqrt(dot(a, a)) }
	diam := 0.0
	var nrm [3]float64
	for i := range p {
		a, b := sub(p[i], c), sub(p[(i+1)%k], c)
		x := cross(a, b)
		for j := 0; j < 3; j++ {
			nrm[j] += x[j]
		}
		diam = math.Max(diam, norm(a)*2)
	}
	if diam < 1e-3 || norm(nrm) < 1e-3*diam*diam {
		return false
	}
	nl := norm(nrm)
	for j := range nrm {
		nrm[j] /= nl
	}
	turn := 0.0
	for i := range p {
		if math.Abs(dot(sub(p[i], c), nrm)) > 1e-6*diam {
			return false
		}
		e1, e2 := sub(p[(i+1)%k], p[i]), sub(p[(i+2)%k], p[(i+1)%k])
		l1, l2 := norm(e1), norm(e2)
		if l1 < 1e-3*diam || l2 < 1e-3*diam {
			return false
		}
		s := dot(cross(e1, e2), nrm) / (l1 * l2) // sine of the exterior angle, positive by the choice of nrm
		if s < 1e-3 {
			return false
		}
		turn += math.Atan2(s, dot(e1, e2)/(l1*l2))
	}
	return math.Abs(turn-2*math.Pi) < 0.1
}

// isOFFDegeneratePanic recognises the panic of the known finding.
func isOFFDegeneratePanic(err error) bool {
	var v *violation
	if !errors.As(err, &v) || v.kind != "panic" || !strings.HasPrefix(v.api, "model3d.ReadOFF") {
		return false
	}
	return strings.Contains(v.panic, "polygon does not span a 2-D space") || strings.Contains(v.panic, "no ears detected")
}

// ---------------------------------------------------------------------------

// checkTarget runs every API of the target's format on the input and returns the
// tags of the switched-off known-finding classes the input belongs to.
func checkTarget(target string, data []byte, ex exclusions, rep *report) (excluded []string, err error) {
	for _, mode := range readerModes {
		r := rep
		if mode != "" {
			r = &report{} // classification comes from the plain reader only
		}
		switch target {
		case "ReadSTL":
			err = checkSTL(data, mode, r)
		case "ReadOFF":
			var skipped bool
			skipped, err = checkOFF(data, mode, ex.offPolygon, r)
			if skipped && mode == "" {
				excluded = append(excluded, offTag)
			}
		case "ReadColorPLY":
			err = checkColorPLY(data, mode, r)
		case "PLYReader":
			err = checkPLYReader(data, mode, r)
		case "DecodeCSV":
			err = checkCSV(data, mode, r)
		default:
			return nil, fmt.Errorf("unknown target %q", target)
		}
		if err != nil {
			return excluded, err
		}
	}
	return excluded, nil
}

// exclusions: known-finding input classes that are switched off.
type exclusions struct {
	offPolygon bool // ReadOFF is not run on inputs with a polygon face outside general convex position
}

const offTag = "off-degenerate-polygon"
