package c16

import (
	"encoding/json"
	"fmt"
	"os"
	"path/filepath"
	"runtime"
	"strings"
	"testing"
	"time"

	"pgregory.net/rapid"
	"verifharness/kit"
)

const rule = "inputs (<= 4 KiB) for every decoder (ReadSTL + STLReader rows, ReadOFF + OFFReader rows, ReadColorPLY, PLYReader rows + NewPLYHeaderDecode, DecodeCSV + SegmentCSVReader rows): (enum-truncate) every prefix of harness-written valid files (binary/ASCII STL, OFF with polygon faces, colour PLY and generic PLY in the three encodings, CSV); (mutate) one or two single-field corruptions of a random valid file (counts / list lengths in {-1,0,1,n-1,n+1,2^31-1,2^31,2^32-1,2^63-1}, indices in {-1,n,2^31-1}, type names swapped or unknown, properties removed, tokens duplicated/deleted/swapped/inserted, byte flips); (bytes) strings drawn from a per-format token dictionary, optionally after a valid prefix. Every input is decoded through three reader behaviours (plain, one byte per Read call, stream ending in a non-EOF error). Non-trivial: a truncation or mutation of a valid file, or a byte string whose header the decoder accepted (record decoding reached). Distinct: hash of the JSON case (the bytes)."

// byteCase is the case of every clause: the exact bytes fed to the decoders
// (base64 in JSON) and, for information only, where they came from.
type byteCase struct {
	Data []byte   `json:"data_b64"`
	Kind string   `json:"kind,omitempty"` // what the bytes were derived from
	Ops  []string `json:"ops,omitempty"`  // the corruptions applied
	Note string   `json:"note,omitempty"`
}

func checker(target string, always bool) func(c byteCase, o *kit.Obs) error {
	return func(c byteCase, o *kit.Obs) error {
		if len(c.Data) > maxInput {
			return fmt.Errorf("%w: case of %d bytes exceeds the 4 KiB domain", kit.ErrInfra, len(c.Data))
		}
		var rep report
		excluded, err := checkTarget(target, c.Data, exclusions{offPolygon: kit.Excluded(offTag)}, &rep)
		for _, tag := range excluded {
			kit.CountExcluded(tag)
			o.Label("excluded:" + tag)
		}
		if c.Kind != "" {
			o.Label("from:" + c.Kind)
		}
		for _, op := range c.Ops {
			o.Label("op:" + op)
		}
		if rep.ok {
			o.Label("result:data")
		} else {
			o.Label("result:error")
		}
		seen := map[string]bool{}
		for _, l := range rep.labels {
			if !seen[l] {
				seen[l] = true
				o.Label(l)
			}
		}
		if rep.accepted {
			o.Label("header-accepted")
		}
		if always || rep.accepted {
			o.NonTrivial()
		}
		return err
	}
}

// ---------------------------------------------------------------------------
// enumerated truncations

type corpus struct {
	files  [][]byte
	kinds  []string
	starts []int // starts[i] = index of the first cut of file i; cuts 0..len(file) inclusive
	total  int
}

func buildCorpus(fm *format, nfiles int) *corpus {
	c := &corpus{}
	for i := 0; i < nfiles; i++ {
		f := fm.build(newLCG(i))
		b := f.bytes()
		c.files = append(c.files, b)
		c.kinds = append(c.kinds, f.Kind)
		c.starts = append(c.starts, c.total)
		c.total += len(b) + 1
	}
	return c
}

func (c *corpus) at(i int) byteCase {
	lo, hi := 0, len(c.files)-1
	for lo < hi {
		mid := (lo + hi + 1) / 2
		if c.starts[mid] <= i {
			lo = mid
		} else {
			hi = mid - 1
		}
	}
	cut := i - c.starts[lo]
	return byteCase{Data: c.files[lo][:cut:cut], Kind: c.kinds[lo], Note: fmt.Sprintf("corpus file %d (%d bytes) cut at %d", lo, len(c.files[lo]), cut)}
}

// enumFresh wraps an enumerated check so that the case is on disk while it runs
// (kit.Enum has no Fresh option): a process killed by the address-space limit is
// then attributed by the driver, which replays current.<shard>.json.
func enumFresh(name string, check func(c byteCase, o *kit.Obs) error) func(c byteCase, o *kit.Obs) error {
	dir := os.Getenv("VERIF_OUT")
	if dir == "" || os.Getenv("VERIF_REPLAY") != "" {
		return check
	}
	shard := os.Getenv("VERIF_SHARD")
	if shard == "" {
		shard = "0"
	}
	path := filepath.Join(dir, "current."+shard+".json")
	return func(c byteCase, o *kit.Obs) error {
		raw, _ := json.Marshal(c)
		rec, _ := json.Marshal(map[string]any{"clause": name, "msg": "process died while running this case", "case": json.RawMessage(raw)})
		os.WriteFile(path, rec, 0o644)
		err := check(c, o)
		os.Remove(path)
		return err
	}
}

// ---------------------------------------------------------------------------

func genMutate(fm *format) func(t *rapid.T) byteCase {
	return func(t *rapid.T) byteCase {
		s := rapidSrc{t}
		f := fm.build(s)
		c := byteCase{Kind: f.Kind}
		for i := s.Int(1, 2, "nmutations"); i > 0; i-- {
			d := mutate(s, f)
			c.Ops = append(c.Ops, strings.FieldsFunc(d, func(r rune) bool { return r == '#' || r == '@' || r == ' ' })[0])
			c.Note += d + " "
		}
		c.Data = f.bytes()
		if len(c.Data) > maxInput {
			c.Data = c.Data[:maxInput]
		}
		return c
	}
}

func genBytes(fm *format) func(t *rapid.T) byteCase {
	return func(t *rapid.T) byteCase {
		b, note := soup(rapidSrc{t}, fm)
		return byteCase{Data: b, Kind: note}
	}
}

func TestProp(t *testing.T) {
	runtime.GOMAXPROCS(1) // the allocation meter stops the world twice per decoder call: 5x cheaper with one P
	nfiles := 40
	if kit.Tier() == "thorough" {
		nfiles = 120
	}
	const budget = 20 * time.Second
	var clauses []kit.Runnable
	for _, name := range targetOrder {
		fm := formats[name]
		cp := buildCorpus(fm, nfiles)
		en := "C16/" + name + "/enum-truncate"
		clauses = append(clauses,
			kit.Enum[byteCase]{Name: en, N: cp.total, At: cp.at, Check: enumFresh(en, checker(name, true)), Budget: budget},
			kit.Clause[byteCase]{Name: "C16/" + name + "/mutate", Quick: 20000, Thorough: 200000, Gen: genMutate(fm), Check: checker(name, true), Budget: budget, Fresh: true},
			kit.Clause[byteCase]{Name: "C16/" + name + "/bytes", Quick: 12000, Thorough: 120000, Gen: genBytes(fm), Check: checker(name, false), Budget: budget, Fresh: true},
		)
	}
	kit.Run(t, "C16", rule, clauses...)
}

// TestCorpusValid is a development aid (not run by the driver): every file the
// harness writes as "valid" must be decoded without error.
func TestCorpusValid(t *testing.T) {
	for _, name := range targetOrder {
		cp := buildCorpus(formats[name], 300)
		for i, b := range cp.files {
			var rep report
			if _, err := checkTarget(name, b, exclusions{}, &rep); err != nil {
				t.Errorf("%s file %d (%s): %v\n%q", name, i, cp.kinds[i], err, b)
			}
			if !rep.ok && !(name == "ReadColorPLY" && strings.Contains(cp.kinds[i], "-second-")) {
				t.Errorf("%s file %d (%s) rejected:\n%q", name, i, cp.kinds[i], b)
			}
		}
	}
}
