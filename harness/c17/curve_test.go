package c17

// Bezier curves, polyline curves and joined curves.

import (
	"fmt"
	"math"

	"github.com/unixpickle/model3d/model2d"
	"pgregory.net/rapid"
	"verifharness/kit"
)

// deCasteljau is the defining repeated linear interpolation.
func deCasteljau(p []kit.V2, t float64) kit.V2 {
	w := append([]kit.V2(nil), p...)
	for n := len(w) - 1; n > 0; n-- {
		for i := 0; i < n; i++ {
			w[i] = kit.V2{w[i][0]*(1-t) + w[i+1][0]*t, w[i][1]*(1-t) + w[i+1][1]*t}
		}
	}
	return w[0]
}

func toBezier(p []kit.V2) model2d.BezierCurve {
	b := make(model2d.BezierCurve, len(p))
	for i, v := range p {
		b[i] = model2d.XY(v[0], v[1])
	}
	return b
}

func fromBezier(b model2d.BezierCurve) []kit.V2 {
	p := make([]kit.V2, len(b))
	for i, v := range b {
		p[i] = kit.V2{v.X, v.Y}
	}
	return p
}

func ptScale(p []kit.V2) float64 {
	s := 1.0
	for _, v := range p {
		s = math.Max(s, math.Max(math.Abs(v[0]), math.Abs(v[1])))
	}
	return s
}

type bezCase struct {
	P  []kit.V2  `json:"p"` // degree+1 control points
	T  []float64 `json:"t"` // parameters in [0, 1]
	ST float64   `json:"split"`
}

func genTs(t *rapid.T, n int) []float64 {
	var ts []float64
	for i := 0; i < n; i++ {
		switch rapid.IntRange(0, 7).Draw(t, "tmode") {
		case 0:
			ts = append(ts, 0)
		case 1:
			ts = append(ts, 1)
		default:
			ts = append(ts, F(t, 0, 1, "t"))
		}
	}
	return ts
}

func genBez(t *rapid.T) bezCase {
	deg := rapid.IntRange(1, 16).Draw(t, "degree")
	var c bezCase
	for i := 0; i <= deg; i++ {
		c.P = append(c.P, Vec2(t, 3, "p"))
	}
	c.T = genTs(t, 4)
	c.ST = genTs(t, 1)[0]
	return c
}

func (c bezCase) valid() error {
	if len(c.P) < 2 || len(c.P) > 17 {
		return fmt.Errorf("%w: degree outside 1..16", kit.ErrInfra)
	}
	for _, t := range append(append([]float64{}, c.T...), c.ST) {
		if !(t >= 0 && t <= 1) {
			return fmt.Errorf("%w: parameter outside [0,1]", kit.ErrInfra)
		}
	}
	return nil
}

func labelDegree(o *kit.Obs, deg int) {
	o.Labelf("degree:%d", deg)
	switch {
	case deg <= 3:
		o.Label("path:closed-form")
	case deg <= 14:
		o.Label("path:binomial-table")
		o.NonTrivial()
	default:
		o.Label("path:recursive")
		o.NonTrivial()
	}
}

func checkBezier(c bezCase, o *kit.Obs) error {
	if err := c.valid(); err != nil {
		return err
	}
	deg := len(c.P) - 1
	labelDegree(o, deg)
	b := toBezier(c.P)
	scale := ptScale(c.P)
	// Bernstein-form evaluation is a convex combination: errors of a few (degree) ulps of the scale
	tolEval := 1e-13 * scale
	for _, t := range c.T {
		got := b.Eval(t)
		want := deCasteljau(c.P, t)
		if e := want.Dist(kit.V2{got.X, got.Y}); !within("bezier/eval", e, tolEval) {
			return fmt.Errorf("degree %d: Eval(%v) = %v, de Casteljau gives %v (distance %g); control points %v", deg, t, got, want, e, c.P)
		}
	}
	// Split: both halves re-parameterise the curve
	c1, c2 := b.Split(c.ST)
	if len(c1) != len(b) || len(c2) != len(b) {
		return fmt.Errorf("Split(%v) of a degree-%d curve returned curves with %d and %d control points", c.ST, deg, len(c1), len(c2))
	}
	p1, p2 := fromBezier(c1), fromBezier(c2)
	for _, s := range c.T {
		w1 := deCasteljau(c.P, s*c.ST)
		w2 := deCasteljau(c.P, c.ST+s*(1-c.ST))
		if e := w1.Dist(deCasteljau(p1, s)); !within("bezier/split", e, tolEval*4) {
			return fmt.Errorf("degree %d: first half of Split(%v) at %v is off the curve by %g; control points %v", deg, c.ST, s, e, c.P)
		}
		if e := w2.Dist(deCasteljau(p2, s)); !within("bezier/split", e, tolEval*4) {
			return fmt.Errorf("degree %d: second half of Split(%v) at %v is off the curve by %g; control points %v", deg, c.ST, s, e, c.P)
		}
	}
	// Polynomials: power-basis coefficients are alternating binomial sums, so the conversion loses
	// about C(n, n/2) * 2^(n/2) ulps (measured 1.2e-9 at degree 16); DESIGN tolerance 1e-6*(1+degree)
	// is tightened here to 1e-15 * 4^degree + 1e-13, relative to the scale
	polys := b.Polynomials()
	tolPoly := (1e-15*math.Pow(4, float64(deg)) + 1e-13) * scale
	for axis := 0; axis < 2; axis++ {
		if len(polys[axis]) > deg+1 {
			return fmt.Errorf("Polynomials()[%d] has %d coefficients for a degree-%d curve", axis, len(polys[axis]), deg)
		}
		for _, t := range c.T {
			got := horner(polys[axis], t)
			want := deCasteljau(c.P, t)[axis]
			if !within(fmt.Sprintf("bezier/poly/deg%02d", deg), math.Abs(got-want), tolPoly) {
				return fmt.Errorf("degree %d: Polynomials()[%d](%v) = %v, curve coordinate is %v; control points %v", deg, axis, t, got, want, c.P)
			}
		}
	}
	// Transpose swaps the coordinates
	tr := b.Transpose()
	for i := range tr {
		if tr[i].X != b[i].Y || tr[i].Y != b[i].X {
			return fmt.Errorf("Transpose()[%d] = %v for control point %v", i, tr[i], b[i])
		}
	}
	return nil
}

// ---- x-monotone curves: InverseX / EvalX

type monoCase struct {
	X0   float64   `json:"x0"`
	DX   []float64 `json:"dx"` // increments of the control abscissae, each in [0.05, 1]
	Y    []float64 `json:"y"`
	Rev  bool      `json:"rev"` // reverse the control polygon (x decreasing in t)
	T    []float64 `json:"t"`
	Over float64   `json:"over"` // how far outside the x-range the out-of-range query lies (>= 0.01)
}

func genMono(t *rapid.T) monoCase {
	deg := rapid.IntRange(1, 16).Draw(t, "degree")
	c := monoCase{X0: F(t, -3, 3, "x0"), Rev: rapid.Bool().Draw(t, "rev")}
	for i := 0; i < deg; i++ {
		c.DX = append(c.DX, F(t, 0.05, 1, "dx"))
	}
	for i := 0; i <= deg; i++ {
		c.Y = append(c.Y, F(t, -3, 3, "y"))
	}
	c.T = genTs(t, 3)
	c.Over = LogF(t, 0.01, 10, "over")
	return c
}

func checkMono(c monoCase, o *kit.Obs) error {
	deg := len(c.DX)
	if deg < 1 || deg > 16 || len(c.Y) != deg+1 || !(c.Over >= 0.0099) {
		return fmt.Errorf("%w: malformed monotone case", kit.ErrInfra)
	}
	pts := []kit.V2{{c.X0, c.Y[0]}}
	minDX := math.Inf(1)
	for i, d := range c.DX {
		if !(d >= 0.0499 && d <= 1.001) {
			return fmt.Errorf("%w: increment outside [0.05, 1]", kit.ErrInfra)
		}
		minDX = math.Min(minDX, d)
		pts = append(pts, kit.V2{pts[i][0] + d, c.Y[i+1]})
	}
	if c.Rev {
		for l, r := 0, len(pts)-1; l < r; l, r = l+1, r-1 {
			pts[l], pts[r] = pts[r], pts[l]
		}
		o.Label("x-decreasing")
	}
	labelDegree(o, deg)
	b := toBezier(pts)
	scale := ptScale(pts)
	// x'(t) >= degree * minDX >= 0.05 (derivative control points are degree * increments > 0);
	// |y'(t)| <= degree * 6.  An x error of 1e-13*scale therefore moves t by <= 2e-12*scale.
	tolT := 1e-10 * scale
	tolY := 1e-10 * scale * 6 * float64(deg)
	for _, t0 := range c.T {
		if !(t0 >= 0 && t0 <= 1) {
			return fmt.Errorf("%w: parameter outside [0,1]", kit.ErrInfra)
		}
		w := deCasteljau(pts, t0)
		// the reference abscissa of a parameter within an ulp of 0 or 1 can round to just outside the
		// span of the curve, where NaN is the documented answer: clamp the query to the span
		if xlo, xhi := math.Min(pts[0][0], pts[deg][0]), math.Max(pts[0][0], pts[deg][0]); w[0] < xlo || w[0] > xhi {
			w[0] = math.Max(xlo, math.Min(xhi, w[0]))
		}
		t := b.InverseX(w[0])
		if math.IsNaN(t) {
			return fmt.Errorf("degree %d: InverseX(%v) is NaN although x = X(%v) lies on the curve; control points %v", deg, w[0], t0, pts)
		}
		if !within("bezier/inverse-x", math.Abs(t-t0), tolT) {
			return fmt.Errorf("degree %d: InverseX(X(%v)) = %v (tolerance %g); control points %v", deg, t0, t, tolT, pts)
		}
		y := b.EvalX(w[0])
		if !within("bezier/eval-x", math.Abs(y-w[1]), tolY) {
			return fmt.Errorf("degree %d: EvalX(X(%v)) = %v, curve has y = %v there; control points %v", deg, t0, y, w[1], pts)
		}
		if y2 := model2d.CurveEvalX(b, w[0]); y2 != y {
			return fmt.Errorf("CurveEvalX = %v but BezierCurve.EvalX = %v", y2, y)
		}
	}
	// documented: NaN when the abscissa is not on the curve
	lo, hi := pts[0][0], pts[len(pts)-1][0]
	if lo > hi {
		lo, hi = hi, lo
	}
	for _, x := range []float64{lo - c.Over, hi + c.Over} {
		if t := b.InverseX(x); !math.IsNaN(t) {
			return fmt.Errorf("degree %d: InverseX(%v) = %v although the curve spans x in [%v, %v] (documented: NaN)", deg, x, t, lo, hi)
		}
		if y := b.EvalX(x); !math.IsNaN(y) {
			return fmt.Errorf("degree %d: EvalX(%v) = %v although the curve spans x in [%v, %v] (documented: NaN)", deg, x, y, lo, hi)
		}
	}
	return nil
}

// ---- arc length

type lenCase struct {
	P   []kit.V2 `json:"p"`
	Tol float64  `json:"tol"`
}

func genLen(t *rapid.T) lenCase {
	deg := rapid.IntRange(1, 16).Draw(t, "degree")
	if rapid.IntRange(0, 3).Draw(t, "cubic") == 0 {
		deg = 3 // the cubic has its own quadrature-based implementation
	}
	var c lenCase
	for i := 0; i <= deg; i++ {
		c.P = append(c.P, Vec2(t, 3, "p"))
	}
	if deg == 3 && rapid.IntRange(0, 2).Draw(t, "structured") == 0 {
		// control polygons with structure a shortcut for "nearly straight" cubics could mistake for degeneracy:
		// equal handles (an S-curve), opposite handles, one or both handles of length zero, all points colinear
		b0, b3, h := c.P[0], c.P[3], Vec2(t, 2, "handle")
		switch rapid.IntRange(0, 4).Draw(t, "structure") {
		case 0:
			c.P[1], c.P[2] = b0.Add(h), b3.Sub(h) // b1-b0 == b3-b2
		case 1:
			c.P[1], c.P[2] = b0.Add(h), b3.Add(h) // b1-b0 == -(b3-b2)
		case 2:
			c.P[1], c.P[2] = b0, b3.Sub(h)
		case 3:
			c.P[1], c.P[2] = b0, b3
		default:
			d := b3.Sub(b0)
			c.P[1], c.P[2] = b0.Add(d.Scale(F(t, -1, 2, "s1"))), b0.Add(d.Scale(F(t, -1, 2, "s2")))
		}
	}
	c.Tol = LogF(t, 1e-5, 1e-1, "tol")
	return c
}

func polylineLen(p []kit.V2, n int) float64 {
	prev := deCasteljau(p, 0)
	var l float64
	for i := 1; i <= n; i++ {
		cur := deCasteljau(p, float64(i)/float64(n))
		l += prev.Dist(cur)
		prev = cur
	}
	return l
}

func checkLength(c lenCase, o *kit.Obs) error {
	if len(c.P) < 2 || len(c.P) > 17 || !(c.Tol >= 0.99e-5 && c.Tol <= 0.11) {
		return fmt.Errorf("%w: malformed length case", kit.ErrInfra)
	}
	deg := len(c.P) - 1
	labelDegree(o, deg)
	if deg == 3 {
		o.Label("cubic-quadrature")
		o.NonTrivial()
	}
	got := toBezier(c.P).Length(c.Tol, 0)
	// inscribed polylines under-estimate with an O(1/n^2) deficit: compare two resolutions,
	// extrapolate, and charge the observed difference to the tolerance
	l1, l2 := polylineLen(c.P, 2000), polylineLen(c.P, 4000)
	ref := l2 + (l2-l1)/3
	refErr := math.Abs(l2 - l1)
	tol := c.Tol + 1e-5*ref + 2*refErr
	if !within("bezier/length", math.Abs(got-ref), tol) {
		return fmt.Errorf("degree %d: Length(tol=%g) = %v, fine polyline gives %v +- %g; control points %v", deg, c.Tol, got, ref, refErr, c.P)
	}
	return nil
}

// ---------------------------------------------------------------------------
// SegmentCurve

type segCase struct {
	Start kit.V2    `json:"start"`
	Steps []kit.V2  `json:"steps"` // direction (any non-zero) of each segment
	Lens  []float64 `json:"lens"`  // length of each segment, in [0.05, 3]; 0 (a repeated vertex) except for the last segment
	T     []float64 `json:"t"`
	Mesh  bool      `json:"mesh"` // build through NewSegmentCurveMesh when the vertices are distinct
}

func genSeg(t *rapid.T) segCase {
	n := rapid.IntRange(1, 12).Draw(t, "segments")
	c := segCase{Start: Vec2(t, 3, "start"), Mesh: rapid.Bool().Draw(t, "mesh")}
	for i := 0; i < n; i++ {
		c.Steps = append(c.Steps, dir2(t, "dir"))
		c.Lens = append(c.Lens, LogF(t, 0.05, 3, "len"))
		// a repeated consecutive vertex: a zero-length segment anywhere but at the end
		if i < n-1 && rapid.IntRange(0, 7).Draw(t, "repeat") == 0 {
			c.Lens[i] = 0
		}
	}
	c.T = genTs(t, 4)
	// parameters exactly at vertices (the lookup boundary)
	if rapid.Bool().Draw(t, "vertex") {
		var total, acc float64
		for _, l := range c.Lens {
			total += l
		}
		k := rapid.IntRange(0, n-1).Draw(t, "vertexidx")
		for i := 0; i <= k; i++ {
			acc += c.Lens[i]
		}
		c.T[0] = math.Min(1, acc/total)
	}
	return c
}

func (c segCase) points() ([]kit.V2, error) {
	if len(c.Steps) < 1 || len(c.Steps) != len(c.Lens) || len(c.Steps) > 64 {
		return nil, fmt.Errorf("%w: malformed polyline case", kit.ErrInfra)
	}
	pts := []kit.V2{c.Start}
	for i, d := range c.Steps {
		n := d.Norm()
		if !(n > 1e-3) || !(c.Lens[i] >= 0.0499 && c.Lens[i] <= 3.01 || c.Lens[i] == 0 && i < len(c.Steps)-1) {
			return nil, fmt.Errorf("%w: degenerate segment in the case", kit.ErrInfra)
		}
		pts = append(pts, pts[i].Add(d.Scale(c.Lens[i]/n)))
	}
	return pts, nil
}

// walk returns the point at arc length l along the polyline, and the segment index used.
func walk(pts []kit.V2, l float64) (kit.V2, int) {
	for i := 0; i+1 < len(pts); i++ {
		d := pts[i].Dist(pts[i+1])
		if d == 0 && i+2 < len(pts) {
			continue // a repeated vertex: no length, the point is the same on either side
		}
		if l <= d || i+2 == len(pts) {
			return pts[i].Add(pts[i+1].Sub(pts[i]).Scale(l / d)), i
		}
		l -= d
	}
	panic("unreachable")
}

func checkSegCurve(c segCase, o *kit.Obs) error {
	pts, err := c.points()
	if err != nil {
		return err
	}
	distinct := true
	for i := range pts {
		for j := 0; j < i; j++ {
			if pts[i] == pts[j] {
				distinct = false
			}
		}
	}
	var segs []*model2d.Segment
	for i := 0; i+1 < len(pts); i++ {
		segs = append(segs, &model2d.Segment{model2d.XY(pts[i][0], pts[i][1]), model2d.XY(pts[i+1][0], pts[i+1][1])})
	}
	var curve *model2d.SegmentCurve
	if c.Mesh && distinct {
		// insertion order is irrelevant for a mesh; insert back to front
		m := model2d.NewMesh()
		for i := len(segs) - 1; i >= 0; i-- {
			m.Add(segs[i])
		}
		curve = model2d.NewSegmentCurveMesh(m)
		o.Label("from-mesh")
	} else {
		curve = model2d.NewSegmentCurve(segs)
	}
	var total float64
	for i := 0; i+1 < len(pts); i++ {
		total += pts[i].Dist(pts[i+1])
	}
	o.Labelf("segments:%d", len(segs))
	for i := 0; i+1 < len(pts); i++ {
		if pts[i] == pts[i+1] {
			o.Label("repeated-vertex")
			break
		}
	}
	scale := ptScale(pts) + total
	for _, t := range c.T {
		if !(t >= 0 && t <= 1) {
			return fmt.Errorf("%w: parameter outside [0,1]", kit.ErrInfra)
		}
		want, idx := walk(pts, t*total)
		if idx > 0 {
			o.NonTrivial()
			o.Label("non-first-segment")
		}
		got := curve.Eval(t)
		// both sides interpolate linearly; the cumulative lengths are sums of <= 64 terms
		if e := want.Dist(kit.V2{got.X, got.Y}); !within("segcurve/eval", e, 1e-12*scale) {
			return fmt.Errorf("SegmentCurve.Eval(%v) = %v, the point at arc length %v of %v along %v is %v (distance %g)", t, got, t*total, total, pts, want, e)
		}
	}
	return nil
}

// ---------------------------------------------------------------------------
// JoinedCurve

type joinCase struct {
	Pieces [][]kit.V2 `json:"pieces"` // Bezier control polygons of degree 1..3; each starts where the previous ends
	T      []float64  `json:"t"`
}

func genJoin(t *rapid.T) joinCase {
	n := rapid.IntRange(1, 6).Draw(t, "pieces")
	var c joinCase
	last := Vec2(t, 3, "start")
	for i := 0; i < n; i++ {
		deg := rapid.IntRange(1, 3).Draw(t, "degree")
		p := []kit.V2{last}
		for k := 0; k < deg; k++ {
			p = append(p, Vec2(t, 3, "p"))
		}
		last = p[deg]
		c.Pieces = append(c.Pieces, p)
	}
	for i := 0; i < 5; i++ {
		switch rapid.IntRange(0, 5).Draw(t, "tmode") {
		case 0:
			// exactly at a joint
			c.T = append(c.T, float64(rapid.IntRange(0, n).Draw(t, "joint"))/float64(n))
		case 1:
			c.T = append(c.T, F(t, -1, 0, "tbelow"))
		case 2:
			c.T = append(c.T, F(t, 1, 2, "tabove"))
		default:
			c.T = append(c.T, F(t, 0, 1, "t"))
		}
	}
	return c
}

func checkJoined(c joinCase, o *kit.Obs) error {
	n := len(c.Pieces)
	if n < 1 || n > 16 {
		return fmt.Errorf("%w: malformed joined case", kit.ErrInfra)
	}
	var j model2d.JoinedCurve
	scale := 1.0
	for i, p := range c.Pieces {
		if len(p) < 2 || len(p) > 4 || (i > 0 && p[0] != c.Pieces[i-1][len(c.Pieces[i-1])-1]) {
			return fmt.Errorf("%w: pieces must be Bezier curves of degree 1..3 that join end to start", kit.ErrInfra)
		}
		scale = math.Max(scale, ptScale(p))
		// alternate between the two Curve implementations a caller would join
		if i%2 == 0 {
			j = append(j, toBezier(p))
		} else {
			p := p
			j = append(j, model2d.FuncCurve(func(t float64) model2d.Coord {
				v := deCasteljau(p, t)
				return model2d.XY(v[0], v[1])
			}))
		}
	}
	o.Labelf("pieces:%d", n)
	if err := checkSmoothBezier(c, scale); err != nil {
		return err
	}
	for _, t := range c.T {
		if !(t >= -1 && t <= 2) {
			return fmt.Errorf("%w: parameter outside [-1, 2]", kit.ErrInfra)
		}
		// documented: each sub-curve consumes an equal fraction of t; outside [0, 1] the first or last curve is used
		u := t * float64(n)
		idx := int(math.Floor(u))
		if idx < 0 {
			idx = 0
			o.Label("t<0")
			o.NonTrivial()
		}
		if idx >= n {
			idx = n - 1
			if t > 1 {
				o.Label("t>1")
				o.NonTrivial()
			}
		}
		if idx > 0 {
			o.NonTrivial()
		}
		got := j.Eval(t)
		g := kit.V2{got.X, got.Y}
		want := deCasteljau(c.Pieces[idx], u-float64(idx))
		// extrapolation of a cubic to |s| <= n+1 <= 7 magnifies coefficients by up to 7^3 * 8
		mag := math.Pow(1+math.Abs(u-float64(idx)), 3) * 8
		tol := 1e-13 * scale * mag
		e := want.Dist(g)
		if e > tol && math.Abs(u-math.Round(u)) < 1e-9 && t >= 0 && t <= 1 {
			// at a joint t*n may round to either side; the pieces meet there, so the neighbour is as good
			if k := int(math.Round(u)) - 1; k >= 0 && k < n {
				e = math.Min(e, deCasteljau(c.Pieces[k], u-float64(k)).Dist(g))
			}
		}
		if !within("joined/eval", e, tol) {
			return fmt.Errorf("JoinedCurve of %d pieces: Eval(%v) = %v, piece %d at local parameter %v is %v (distance %g)", n, t, got, idx, u-float64(idx), want, e)
		}
	}
	return nil
}

// checkSmoothBezier feeds the control points of the case to SmoothBezier and compares every piece with
// the documented construction: the first four points form the first cubic; afterwards each (control,
// end) pair forms a cubic that starts at the previous end with the previous control point reflected.
func checkSmoothBezier(c joinCase, scale float64) error {
	var pts []kit.V2
	for i, p := range c.Pieces {
		if i == 0 {
			pts = append(pts, p...)
		} else {
			pts = append(pts, p[1:]...)
		}
	}
	if len(pts) < 4 {
		return nil
	}
	extra := (len(pts) - 4) / 2 * 2
	pts = pts[:4+extra]
	cc := func(v kit.V2) model2d.Coord { return model2d.XY(v[0], v[1]) }
	var rest []model2d.Coord
	for _, v := range pts[4:] {
		rest = append(rest, cc(v))
	}
	j := model2d.SmoothBezier(cc(pts[0]), cc(pts[1]), cc(pts[2]), cc(pts[3]), rest...)
	if len(j) != 1+extra/2 {
		return fmt.Errorf("SmoothBezier with %d extra points returned %d curves, want %d", extra, len(j), 1+extra/2)
	}
	want := [][]kit.V2{pts[:4]}
	for i := 4; i < len(pts); i += 2 {
		prev := want[len(want)-1]
		end, ctrl := prev[3], prev[2]
		want = append(want, []kit.V2{end, {2*end[0] - ctrl[0], 2*end[1] - ctrl[1]}, pts[i], pts[i+1]})
	}
	for k, w := range want {
		b, ok := j[k].(model2d.BezierCurve)
		if !ok || len(b) != 4 {
			return fmt.Errorf("SmoothBezier piece %d is not a cubic BezierCurve", k)
		}
		for i := range w {
			if e := w[i].Dist(kit.V2{b[i].X, b[i].Y}); !within("joined/smooth-bezier", e, 1e-13*scale) {
				return fmt.Errorf("SmoothBezier piece %d control point %d is %v, documented construction gives %v", k, i, b[i], w[i])
			}
		}
	}
	return nil
}
