package c17

// Local float generators.  rapid's Float64Range is heavily biased: measured on 10 000 draws of F(-3, 3), 88% have magnitude
// below 0.1 (most around 1e-8..1e-5), and 60% of LogF(0.3, 3) fall in [1, 1.25).
// That bias is valuable for finding degenerate inputs but leaves the generic part
// of every domain almost unvisited, so values here are uniform four times out of
// five and drawn with rapid's bias otherwise.  A uniform value is a deterministic
// function (a bit mixer) of three rapid integer draws, so all randomness still
// comes from rapid and a case is replayed from its JSON, not from the draws.

import (
	"math"
	"math/bits"

	"pgregory.net/rapid"
	"verifharness/kit"
)

func mix64(v uint64) uint64 {
	v = (v ^ (v >> 30)) * 0xbf58476d1ce4e5b9
	v = (v ^ (v >> 27)) * 0x94d049bb133111eb
	return v ^ (v >> 31)
}

// unit is uniform in [0, 1).
func unit(t *rapid.T, label string) float64 {
	a := rapid.Uint64().Draw(t, label+".u0")
	b := rapid.Uint64().Draw(t, label+".u1")
	c := rapid.Uint64().Draw(t, label+".u2")
	return float64(mix64(a^bits.RotateLeft64(b, 23)^bits.RotateLeft64(c, 47))>>11) / (1 << 53)
}

// F draws from [lo, hi].
func F(t *rapid.T, lo, hi float64, label string) float64 {
	if rapid.IntRange(0, 4).Draw(t, label+".biased") == 0 {
		return rapid.Float64Range(lo, hi).Draw(t, label)
	}
	return lo + (hi-lo)*unit(t, label)
}

// LogF draws from [lo, hi] with a uniform logarithm.
func LogF(t *rapid.T, lo, hi float64, label string) float64 {
	if rapid.IntRange(0, 4).Draw(t, label+".biased") == 0 {
		return math.Min(hi, math.Max(lo, math.Exp(rapid.Float64Range(math.Log(lo), math.Log(hi)).Draw(t, label))))
	}
	return math.Min(hi, math.Max(lo, math.Exp(math.Log(lo)+(math.Log(hi)-math.Log(lo))*unit(t, label))))
}

// Vec2 draws a vector with components in [-m, m].
func Vec2(t *rapid.T, m float64, label string) kit.V2 {
	return kit.V2{F(t, -m, m, label+".x"), F(t, -m, m, label+".y")}
}

// dir2 draws a unit direction: axis-aligned 1 time in 4, else a uniform angle.
func dir2(t *rapid.T, label string) kit.V2 {
	if k := rapid.IntRange(0, 7).Draw(t, label+".kind"); k < 2 {
		var v kit.V2
		v[k] = 1
		if rapid.Bool().Draw(t, label+".neg") {
			v[k] = -1
		}
		return v
	}
	a := 2 * math.Pi * unit(t, label+".angle")
	return kit.V2{math.Cos(a), math.Sin(a)}
}

// dir3 draws a direction with norm in [0.5, 2]: axis-aligned 1 time in 4, else uniform on the sphere.
func dir3(t *rapid.T, label string) kit.V3 {
	r := 0.5 + 1.5*unit(t, label+".norm")
	if k := rapid.IntRange(0, 11).Draw(t, label+".kind"); k < 3 {
		var v kit.V3
		v[k] = r
		if rapid.Bool().Draw(t, label+".neg") {
			v[k] = -r
		}
		return v
	}
	z := 2*unit(t, label+".z") - 1
	a := 2 * math.Pi * unit(t, label+".lon")
	s := math.Sqrt(1 - z*z)
	return kit.V3{r * s * math.Cos(a), r * s * math.Sin(a), r * z}
}
