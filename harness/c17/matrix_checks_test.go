package c17

// SVD, eigenvalue, CharPoly, rotation and OrthoBasis checks (generators and
// tolerance tables are in matrix_test.go).

import (
	"fmt"
	"math"
	"math/cmplx"
	"sort"

	"github.com/unixpickle/model3d/model2d"
	"github.com/unixpickle/model3d/model3d"
	"github.com/unixpickle/model3d/numerical"
	"pgregory.net/rapid"
	"verifharness/kit"
)

// ---------------------------------------------------------------------------
// singular value decomposition

func checkSVD(c matCase, o *kit.Obs) error {
	if err := c.valid(); err != nil {
		return err
	}
	if c.N == 4 {
		for _, cls := range []struct {
			tag string
			in  bool
		}{{"svd4-double-pairs", svd4DoublePairs(c)}, {"svd4-noise-row", svd4NoiseRow(c)}} {
			if !cls.in {
				continue
			}
			if kit.Excluded(cls.tag) {
				kit.CountExcluded(cls.tag)
				o.Label("excluded:" + cls.tag)
				return nil
			}
			o.Label("class:" + cls.tag)
		}
	}
	c.label(o)
	m := c.dense()
	u, s, v := libSVD(c, m)
	if c.MagLog2 != 0 {
		mag := math.Ldexp(1, c.MagLog2)
		scaled := dmat{n: m.n, a: append([]float64(nil), m.a...)}
		for i := range scaled.a {
			scaled.a[i] *= mag
		}
		u, s, v = libSVD(c, scaled)
		s = dmat{n: s.n, a: append([]float64(nil), s.a...)}
		for i := range s.a {
			s.a[i] /= mag
		}
		o.Label("rescaled")
	}
	mult := clusterMult(absAll(c.S), clusterGap)
	tol := svdTol[c.N][mult]
	tag := fmt.Sprintf("svd%d/m%d/", c.N, mult)
	o.Labelf("cluster:%d", mult)
	if c.N == 4 {
		o.Labelf("n:4/cluster:%d", mult)
	}
	for i := 0; i < c.N; i++ {
		for j := 0; j < c.N; j++ {
			x := s.at(i, j)
			if i != j && x != 0 {
				return fmt.Errorf("S[%d][%d] = %g, want a diagonal matrix; M=%v", i, j, x, m.a)
			}
			if i == j && !(x >= 0) {
				return fmt.Errorf("singular value S[%d] = %g is not non-negative; M=%v", i, x, m.a)
			}
		}
		if i > 0 && !(s.at(i-1, i-1) >= s.at(i, i)) {
			if c.Focus == "reconstruct" {
				continue
			}
			if c.N == 4 && kit.Excluded("svd4-unsorted") {
				kit.CountExcluded("svd4-unsorted")
				continue
			}
			return fmt.Errorf("singular values not sorted largest to smallest: %g before %g; M=%v", s.at(i-1, i-1), s.at(i, i), m.a)
		}
	}
	if c.Focus == "sorted" {
		return nil
	}
	if e := maxDiffD(mulD(tD(u), u), identD(c.N)); !within(tag+"UtU", e, tol) {
		return fmt.Errorf("U^T U differs from the identity by %g (tolerance %g); M=%v U=%v", e, tol, m.a, u.a)
	}
	if e := maxDiffD(mulD(tD(v), v), identD(c.N)); !within(tag+"VtV", e, tol) {
		return fmt.Errorf("V^T V differs from the identity by %g (tolerance %g); M=%v V=%v", e, tol, m.a, v.a)
	}
	if e := maxDiffD(mulD(mulD(u, s), tD(v)), m); !within(tag+"USVt", e, tol) {
		return fmt.Errorf("U*S*V^T differs from M by %g (tolerance %g); M=%v", e, tol, m.a)
	}
	want := sortedDesc(absAll(c.S))
	var got []float64
	for i := 0; i < c.N; i++ {
		got = append(got, s.at(i, i))
	}
	if c.Focus == "reconstruct" || (c.N == 4 && kit.Excluded("svd4-unsorted")) {
		got = sortedDesc(got)
	}
	// singular values are perfectly conditioned (Weyl): the planted |S| must come back
	if e := maxDiffV(got, want); !within(tag+"planted", e, tol) {
		return fmt.Errorf("singular values %v, planted %v (difference %g, tolerance %g); M=%v", got, want, e, tol, m.a)
	}
	return nil
}

// ---------------------------------------------------------------------------
// eigenvalues

func libEig(c matCase, m dmat) []complex128 {
	switch {
	case c.N == 2 && c.Impl == "numerical":
		e := toNum2(m).Eigenvalues()
		return e[:]
	case c.N == 2:
		e := toMod2(m).Eigenvalues()
		return e[:]
	case c.Impl == "numerical":
		e := toNum3(m).Eigenvalues()
		return e[:]
	}
	e := toMod3(m).Eigenvalues()
	return e[:]
}

func checkEigen(c matCase, o *kit.Obs) error {
	if err := c.valid(); err != nil {
		return err
	}
	if c.N > 3 {
		return fmt.Errorf("%w: no 4x4 Eigenvalues in the library", kit.ErrInfra)
	}
	c.label(o)
	m := c.dense()
	eig := libEig(c, m)
	if len(eig) != c.N {
		return fmt.Errorf("%d eigenvalues returned for a %dx%d matrix", len(eig), c.N, c.N)
	}
	tag := fmt.Sprintf("eig%d/", c.N)
	var sum complex128
	complexPair := false
	for _, l := range eig {
		if cmplx.IsNaN(l) || cmplx.IsInf(l) {
			return fmt.Errorf("eigenvalue %v is not finite; M=%v", l, m.a)
		}
		sum += l
		if math.Abs(imag(l)) > 1e-3 {
			complexPair = true
		}
		// residual of the defining equation; ||M|| <= 3 and |lambda| <= 3, so the terms of the
		// determinant are bounded by 6^n; the residual is of order m in the eigenvalue error near an
		// m-fold root, hence small even where the closed form loses digits (measured 6e-14)
		r := cmplx.Abs(cdet(m, l))
		if !within(tag+"residual", r, 1e-11) {
			return fmt.Errorf("det(M - lambda I) = %g for returned eigenvalue %v (tolerance 1e-11); M=%v", r, l, m.a)
		}
	}
	if complexPair {
		o.Label("complex-pair")
	}
	// the remaining coefficients of the characteristic polynomial: sum = trace, product = determinant
	// (both are insensitive to the splitting of a repeated root; measured 2e-15 and 5e-14)
	if e := cmplx.Abs(sum - complex(traceD(m), 0)); !within(tag+"trace", e, 1e-12) {
		return fmt.Errorf("eigenvalues %v sum to %v, trace is %g; M=%v", eig, sum, traceD(m), m.a)
	}
	prod := complex(1, 0)
	for _, l := range eig {
		prod *= l
	}
	if e := cmplx.Abs(prod - complex(detD(m), 0)); !within(tag+"det", e, 1e-11) {
		return fmt.Errorf("eigenvalues %v multiply to %v, determinant is %g; M=%v", eig, prod, detD(m), m.a)
	}
	if c.Sym {
		// symmetric: the planted eigenvalues are perfectly conditioned
		var re []float64
		mult := clusterMult(c.S, clusterGap)
		tol := eigTol[mult]
		o.Labelf("cluster:%d", mult)
		tag = fmt.Sprintf("eig%d/m%d/", c.N, mult)
		for _, l := range eig {
			if !within(tag+"sym-imag", math.Abs(imag(l)), tol) {
				return fmt.Errorf("symmetric matrix has eigenvalue %v with imaginary part (tolerance %g); M=%v", l, tol, m.a)
			}
			re = append(re, real(l))
		}
		sort.Float64s(re)
		want := append([]float64(nil), c.S...)
		sort.Float64s(want)
		if e := maxDiffV(re, want); !within(tag+"sym-planted", e, tol) {
			return fmt.Errorf("eigenvalues %v, planted %v (difference %g, tolerance %g); M=%v", re, want, e, tol, m.a)
		}
	}
	return nil
}

// ---------------------------------------------------------------------------
// Matrix4.CharPoly

func horner(p []float64, x float64) float64 {
	var r float64
	for i := len(p) - 1; i >= 0; i-- {
		r = r*x + p[i]
	}
	return r
}

func checkCharPoly(c matCase, o *kit.Obs) error {
	if err := c.valid(); err != nil {
		return err
	}
	if c.N != 4 {
		return fmt.Errorf("%w: CharPoly exists for Matrix4 only", kit.ErrInfra)
	}
	c.label(o)
	m := c.dense()
	p := toNum4(m).CharPoly()
	if len(p) != 5 {
		return fmt.Errorf("CharPoly has %d coefficients, want 5", len(p))
	}
	// det(M - xI) = det(xI - M) for n = 4, so the sign convention does not matter
	for _, x := range c.W {
		a := fromSlice(4, m.a)
		for i := 0; i < 4; i++ {
			a.set(i, i, a.at(i, i)-x)
		}
		want := detD(a)
		got := horner(p, x)
		// |x| <= 4, ||M|| <= 3: |det| <= 7^4 = 2401; 24-term sums of 4-fold products (measured 5e-13)
		if e := math.Abs(got - want); !within("charpoly/eval", e, 1e-10) {
			return fmt.Errorf("CharPoly(%g) = %g, det(M - xI) = %g; M=%v", x, got, want, m.a)
		}
	}
	if c.Sym {
		for _, l := range c.S {
			if e := math.Abs(horner(p, l)); !within("charpoly/planted-root", e, 1e-10) {
				return fmt.Errorf("CharPoly(%g) = %g at a planted eigenvalue; M=%v", l, horner(p, l), m.a)
			}
		}
	}
	return nil
}

// ---------------------------------------------------------------------------
// rotations

type rotCase struct {
	Dim   int     `json:"dim"`
	Impl  string  `json:"impl"`
	Axis  kit.V3  `json:"axis"` // direction, normalised by the check (the constructors assume unit axes)
	Angle float64 `json:"angle"`
}

func genRot(t *rapid.T) rotCase {
	c := rotCase{Dim: rapid.IntRange(2, 3).Draw(t, "dim"), Impl: rapid.SampledFrom([]string{"numerical", "model"}).Draw(t, "impl")}
	c.Axis = dir3(t, "axis")
	c.Angle = F(t, -10, 10, "angle")
	return c
}

func checkRotation(c rotCase, o *kit.Obs) error {
	o.Labelf("dim:%d/%s", c.Dim, c.Impl)
	if math.Abs(math.Sin(c.Angle)) > 1e-3 {
		o.NonTrivial()
	}
	co, si := math.Cos(c.Angle), math.Sin(c.Angle)
	// products of three orthogonal factors with unit entries: a few ulps (measured 1.3e-15)
	const tol = 1e-13
	if c.Dim == 2 {
		var got dmat
		if c.Impl == "numerical" {
			got = fromSlice(2, numerical.NewMatrix2Rotation(c.Angle)[:])
		} else {
			got = fromSlice(2, model2d.NewMatrix2Rotation(c.Angle)[:])
		}
		want := fromSlice(2, []float64{co, -si, si, co})
		if e := maxDiffD(got, want); !within("rotation/2d", e, tol) {
			return fmt.Errorf("NewMatrix2Rotation(%g) = %v, want the counter-clockwise rotation %v", c.Angle, got.a, want.a)
		}
		return nil
	}
	n := c.Axis.Norm()
	if !(n > 0.1) {
		return fmt.Errorf("%w: degenerate axis", kit.ErrInfra)
	}
	k := c.Axis.Scale(1 / n)
	ax := 0
	for i := 0; i < 3; i++ {
		if k[i] != 0 {
			ax++
		}
	}
	if ax == 1 {
		o.Label("axis-aligned")
	}
	var got dmat
	if c.Impl == "numerical" {
		got = fromSlice(3, numerical.NewMatrix3Rotation(numerical.Vec3{k[0], k[1], k[2]}, c.Angle)[:])
	} else {
		got = fromSlice(3, model3d.NewMatrix3Rotation(model3d.XYZ(k[0], k[1], k[2]), c.Angle)[:])
	}
	// Rodrigues: R = cos I + sin [k]x + (1-cos) k k^T (right-handed about k)
	want := newD(3)
	kx := [3][3]float64{{0, -k[2], k[1]}, {k[2], 0, -k[0]}, {-k[1], k[0], 0}}
	for i := 0; i < 3; i++ {
		for j := 0; j < 3; j++ {
			v := si*kx[i][j] + (1-co)*k[i]*k[j]
			if i == j {
				v += co
			}
			want.set(i, j, v)
		}
	}
	if e := maxDiffD(mulD(tD(got), got), identD(3)); !within("rotation/orthogonal", e, tol) {
		return fmt.Errorf("rotation about %v by %g is not orthogonal (R^T R - I = %g)", k, c.Angle, e)
	}
	if e := math.Abs(detD(got) - 1); !within("rotation/det", e, tol) {
		return fmt.Errorf("rotation about %v by %g has determinant %g", k, c.Angle, detD(got))
	}
	if e := maxDiffV(mulVecD(got, k[:]), k[:]); !within("rotation/axis", e, tol) {
		return fmt.Errorf("rotation about %v by %g moves its axis to %v", k, c.Angle, mulVecD(got, k[:]))
	}
	if e := maxDiffD(got, want); !within("rotation/rodrigues", e, tol) {
		return fmt.Errorf("rotation about %v by %g = %v, Rodrigues' formula (right-handed) gives %v", k, c.Angle, got.a, want.a)
	}
	return nil
}

// ---------------------------------------------------------------------------
// OrthoBasis

type basisCase struct {
	Kind string     `json:"kind"` // coord3d | vec3 | vec4
	V    [4]float64 `json:"v"`
}

func genBasis(t *rapid.T) basisCase {
	c := basisCase{Kind: rapid.SampledFrom([]string{"coord3d", "vec3", "vec4"}).Draw(t, "kind")}
	n := 3
	if c.Kind == "vec4" {
		n = 4
	}
	mode := rapid.SampledFrom([]string{"generic", "generic", "axis", "near-axis", "equal-abs"}).Draw(t, "mode")
	scale := LogF(t, 1e-3, 1e3, "scale")
	k := rapid.IntRange(0, n-1).Draw(t, "k")
	for i := 0; i < n; i++ {
		x := F(t, 0.05, 1, "x")
		if rapid.Bool().Draw(t, "neg") {
			x = -x
		}
		switch mode {
		case "axis":
			if i != k {
				x = 0
			}
		case "near-axis":
			if i != k {
				x *= 1e-9
			}
		case "equal-abs":
			if i != k {
				x = math.Copysign(0.5, x)
			}
		}
		c.V[i] = x * scale
	}
	return c
}

func checkBasis(c basisCase, o *kit.Obs) error {
	n := 3
	if c.Kind == "vec4" {
		n = 4
	}
	v := append([]float64(nil), c.V[:n]...)
	var norm float64
	nz := 0
	for _, x := range v {
		norm += x * x
		if x != 0 {
			nz++
		}
	}
	norm = math.Sqrt(norm)
	if !(norm > 0) || !finiteAll(v...) {
		return fmt.Errorf("%w: zero vector", kit.ErrInfra)
	}
	o.Label("kind:" + c.Kind)
	if nz == 1 {
		o.Label("axis-aligned")
	} else {
		o.NonTrivial()
	}
	var vecs [][]float64
	vecs = append(vecs, v)
	for i := range vecs[0] {
		vecs[0][i] /= norm
	}
	switch c.Kind {
	case "coord3d":
		a, b := model3d.XYZ(c.V[0], c.V[1], c.V[2]).OrthoBasis()
		vecs = append(vecs, []float64{a.X, a.Y, a.Z}, []float64{b.X, b.Y, b.Z})
	case "vec3":
		a, b := numerical.Vec3{c.V[0], c.V[1], c.V[2]}.OrthoBasis()
		vecs = append(vecs, a[:], b[:])
	default:
		a, b, d := numerical.Vec4(c.V).OrthoBasis()
		vecs = append(vecs, a[:], b[:], d[:])
	}
	// orthonormality to 1e-12 (measured 6e-16)
	for i := 0; i < len(vecs); i++ {
		for j := i; j < len(vecs); j++ {
			var d float64
			for k := 0; k < n; k++ {
				d += vecs[i][k] * vecs[j][k]
			}
			want := 0.0
			if i == j {
				want = 1
			}
			if !within("orthobasis/gram", math.Abs(d-want), 1e-12) {
				return fmt.Errorf("%s OrthoBasis of %v: <b%d, b%d> = %g, want %g (b0 = normalised input); basis %v", c.Kind, c.V[:n], i, j, d, want, vecs[1:])
			}
		}
	}
	if nz == 1 {
		// documented: "If v is axis-aligned, the other vectors will be as well."
		for i := 1; i < len(vecs); i++ {
			cnt := 0
			for _, x := range vecs[i] {
				if x != 0 {
					cnt++
				}
			}
			if cnt != 1 {
				return fmt.Errorf("%s OrthoBasis of axis-aligned %v returned %v, which is not axis-aligned", c.Kind, c.V[:n], vecs[i])
			}
		}
	}
	if c.Kind == "vec4" {
		// the code states (and the repository's own test asserts) a positive determinant of [v, b1, b2, b3]
		m := newD(4)
		for col := 0; col < 4; col++ {
			for r := 0; r < 4; r++ {
				m.set(r, col, vecs[col][r])
			}
		}
		if d := detD(m); !within("orthobasis/det4", math.Abs(d-1), 1e-12) {
			return fmt.Errorf("Vec4 OrthoBasis of %v: det[v, b1, b2, b3] = %g, want +1", c.V[:n], d)
		}
	}
	return nil
}

// ---------------------------------------------------------------------------
// SVD of small-integer matrices: symmetric, circulant and plain ones.  Columns with exactly equal norms, exact ties
// between singular values and exact rank deficiency are the rule here, not the exception.

type intSVDCase struct {
	N    int    `json:"n"`
	Impl string `json:"impl"`
	Kind string `json:"kind"` // plain symmetric circulant
	E    []int  `json:"e"`
}

func genIntSVD(t *rapid.T) intSVDCase {
	c := intSVDCase{N: rapid.SampledFrom([]int{2, 3, 4, 4}).Draw(t, "n"), Impl: rapid.SampledFrom([]string{"numerical", "model"}).Draw(t, "impl"),
		Kind: rapid.SampledFrom([]string{"plain", "symmetric", "circulant"}).Draw(t, "kind")}
	for i := 0; i < c.N*c.N; i++ {
		c.E = append(c.E, rapid.IntRange(-3, 3).Draw(t, "e"))
	}
	return c
}

func checkIntSVD(c intSVDCase, o *kit.Obs) error {
	n := c.N
	if n < 2 || n > 4 || len(c.E) != n*n {
		return fmt.Errorf("%w: malformed case", kit.ErrInfra)
	}
	m := newD(n)
	for i := 0; i < n; i++ {
		for j := 0; j < n; j++ {
			v := float64(c.E[i*n+j])
			switch c.Kind {
			case "symmetric":
				if j < i {
					v = float64(c.E[j*n+i])
				}
			case "circulant":
				v = float64(c.E[((j-i)%n+n)%n])
			}
			m.set(i, j, v)
		}
	}
	o.Label("kind:" + c.Kind)
	o.Labelf("n:%d", n)
	mc := matCase{N: n, Impl: c.Impl}
	if n == 4 {
		mc.Impl = "numerical"
	}
	scale := 1.0
	for _, x := range m.a {
		scale = math.Max(scale, math.Abs(x))
	}
	u, s, v := libSVD(mc, m)
	for _, x := range append(append(append([]float64{}, u.a...), s.a...), v.a...) {
		if math.IsNaN(x) || math.IsInf(x, 0) {
			return fmt.Errorf("SVD of the integer matrix %v has a non-finite entry", m.a)
		}
	}
	o.NonTrivial()
	// the closed forms for n <= 3 go through characteristic polynomials with (here: exactly) repeated roots, where
	// the library itself grants 1e-4 (see svdTol); the Jacobi iteration for n = 4 is held to 1e-8
	tol := 1e-3
	if n == 4 {
		tol = 1e-8
	}
	for i := 0; i < n; i++ {
		for j := 0; j < n; j++ {
			if i != j && s.at(i, j) != 0 {
				return fmt.Errorf("S[%d][%d] = %g, want a diagonal matrix; M=%v", i, j, s.at(i, j), m.a)
			}
		}
		if !(s.at(i, i) >= 0) || (i > 0 && s.at(i, i) > s.at(i-1, i-1)+tol*scale) {
			return fmt.Errorf("singular values %v are not non-negative and descending; M=%v", s.a, m.a)
		}
	}
	if e := maxDiffD(mulD(tD(u), u), identD(n)); !(e <= tol) {
		return fmt.Errorf("U^T U differs from the identity by %g (tolerance %g); integer matrix M=%v U=%v", e, tol, m.a, u.a)
	}
	if e := maxDiffD(mulD(tD(v), v), identD(n)); !(e <= tol) {
		return fmt.Errorf("V^T V differs from the identity by %g (tolerance %g); integer matrix M=%v V=%v", e, tol, m.a, v.a)
	}
	if e := maxDiffD(mulD(mulD(u, s), tD(v)), m); !(e <= tol*scale) {
		return fmt.Errorf("U*S*V^T differs from M by %g (tolerance %g); integer matrix M=%v", e, tol*scale, m.a)
	}
	return nil
}
