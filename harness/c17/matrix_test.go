package c17

// Dense matrix kernels: inverses, SVD, eigenvalues, rotations, CharPoly,
// OrthoBasis and 3-column least squares.

import (
	"fmt"
	"math"
	"math/cmplx"
	"sort"

	"github.com/unixpickle/model3d/model2d"
	"github.com/unixpickle/model3d/model3d"
	"github.com/unixpickle/model3d/numerical"
	"pgregory.net/rapid"
	"verifharness/gen"
	"verifharness/kit"
)

// matCase describes M = Q1 * diag(S) * Q2^T with Q1, Q2 products of Givens
// rotations and |S[i]| in [0.3, 3]: cond(M) <= 10 and ||M|| <= 3 by construction.
// With Sym the right factor is Q1 (M symmetric with eigenvalues S).
type matCase struct {
	N    int       `json:"n"`
	Impl string    `json:"impl"` // "numerical" | "model" (model2d.Matrix2 / model3d.Matrix3)
	S    []float64 `json:"s"`
	L    []float64 `json:"l"`
	R    []float64 `json:"r"`
	Sym  bool      `json:"sym,omitempty"`
	Tie  string    `json:"tie,omitempty"` // how S was drawn (label only)
	W    []float64 `json:"w"`            // a probe vector / probe abscissae in [-4, 4]
}

const sMin, sMax = 0.3, 3.0

func genMatCase(t *rapid.T, sizes []int, impls []string, symOK bool) matCase {
	c := matCase{N: rapid.SampledFrom(sizes).Draw(t, "n"), Impl: rapid.SampledFrom(impls).Draw(t, "impl")}
	if c.N == 4 {
		c.Impl = "numerical"
	}
	c.Tie = rapid.SampledFrom([]string{"none", "none", "none", "none", "pair", "all", "near"}).Draw(t, "tie")
	for i := 0; i < c.N; i++ {
		s := gen.LogF(t, sMin, sMax, "s")
		if i > 0 {
			s0 := math.Abs(c.S[0])
			switch {
			case c.Tie == "pair" && i == 1, c.Tie == "all":
				s = s0
			case c.Tie == "near" && i == 1:
				s = s0 * (1 + gen.LogF(t, 1e-13, 1e-3, "rel"))
			}
		}
		s = math.Min(sMax, math.Max(sMin, s))
		if rapid.IntRange(0, 3).Draw(t, "neg") == 0 {
			s = -s
		}
		c.S = append(c.S, s)
	}
	for i := 0; i < npairs(c.N); i++ {
		c.L = append(c.L, gen.F(t, -math.Pi, math.Pi, "l"))
	}
	c.Sym = symOK && rapid.IntRange(0, 2).Draw(t, "sym") == 0
	for i := 0; i < npairs(c.N); i++ {
		c.R = append(c.R, gen.F(t, -math.Pi, math.Pi, "r"))
	}
	for i := 0; i < c.N; i++ {
		c.W = append(c.W, gen.F(t, -4, 4, "w"))
	}
	return c
}

func (c matCase) valid() error {
	if c.N < 2 || c.N > 4 || len(c.S) != c.N || len(c.L) != npairs(c.N) || len(c.R) != npairs(c.N) || len(c.W) != c.N {
		return fmt.Errorf("%w: malformed matrix case", kit.ErrInfra)
	}
	for _, s := range c.S {
		if a := math.Abs(s); !(a >= sMin*0.999 && a <= sMax*1.001) {
			return fmt.Errorf("%w: singular value %g outside the stated bounds", kit.ErrInfra, s)
		}
	}
	return nil
}

func (c matCase) factors() (q1, q2 dmat) {
	q1 = rotFromAngles(c.N, c.L)
	if c.Sym {
		return q1, q1
	}
	return q1, rotFromAngles(c.N, c.R)
}

func (c matCase) dense() dmat {
	q1, q2 := c.factors()
	return mulD(mulD(q1, diagD(c.S)), tD(q2))
}

func (c matCase) label(o *kit.Obs) {
	o.Labelf("n:%d/%s", c.N, c.Impl)
	o.Label("tie:" + c.Tie)
	if c.Sym {
		o.Label("symmetric")
	}
	neg := 0
	for _, s := range c.S {
		if s < 0 {
			neg++
		}
	}
	if neg%2 == 1 {
		o.Label("det<0")
	}
	rotated := false
	for _, a := range append(append([]float64{}, c.L...), c.R...) {
		if math.Abs(math.Sin(2*a)) > 1e-3 {
			rotated = true
		}
	}
	// non-trivial: not a (signed, permuted) diagonal matrix
	if rotated {
		o.NonTrivial()
	} else {
		o.Label("axis-aligned")
	}
}

func toNum2(m dmat) *numerical.Matrix2 { var r numerical.Matrix2; copy(r[:], m.a); return &r }
func toNum3(m dmat) *numerical.Matrix3 { var r numerical.Matrix3; copy(r[:], m.a); return &r }
func toNum4(m dmat) *numerical.Matrix4 { var r numerical.Matrix4; copy(r[:], m.a); return &r }
func toMod2(m dmat) *model2d.Matrix2   { var r model2d.Matrix2; copy(r[:], m.a); return &r }
func toMod3(m dmat) *model3d.Matrix3   { var r model3d.Matrix3; copy(r[:], m.a); return &r }

// ---------------------------------------------------------------------------
// inverses

func checkInverse(c matCase, o *kit.Obs) error {
	if err := c.valid(); err != nil {
		return err
	}
	if c.N > 3 {
		return fmt.Errorf("%w: no 4x4 inverse in the library", kit.ErrInfra)
	}
	c.label(o)
	m := c.dense()
	q1, q2 := c.factors()
	inv := make([]float64, c.N)
	for i, s := range c.S {
		inv[i] = 1 / s
	}
	want := mulD(mulD(q2, diagD(inv)), tD(q1)) // planted inverse
	det := detD(m)
	wantCol := mulVecD(want, c.W)

	var got, inplace, inplaceDet dmat
	var orig []float64
	var col []float64
	switch {
	case c.N == 2 && c.Impl == "numerical":
		a := toNum2(m)
		got = fromSlice(2, a.Inverse()[:])
		orig = append(orig, a[:]...)
		b := *a
		b.InvertInPlace()
		inplace = fromSlice(2, b[:])
		b = *a
		b.InvertInPlaceDet(det)
		inplaceDet = fromSlice(2, b[:])
		v := a.MulColumnInv(numerical.Vec2{c.W[0], c.W[1]}, det)
		col = v[:]
	case c.N == 2:
		a := toMod2(m)
		got = fromSlice(2, a.Inverse()[:])
		orig = append(orig, a[:]...)
		b := *a
		b.InvertInPlace()
		inplace = fromSlice(2, b[:])
		b = *a
		b.InvertInPlaceDet(det)
		inplaceDet = fromSlice(2, b[:])
		v := a.MulColumnInv(model2d.XY(c.W[0], c.W[1]), det)
		col = []float64{v.X, v.Y}
	case c.Impl == "numerical":
		a := toNum3(m)
		got = fromSlice(3, a.Inverse()[:])
		orig = append(orig, a[:]...)
		b := *a
		b.InvertInPlace()
		inplace = fromSlice(3, b[:])
		b = *a
		b.InvertInPlaceDet(det)
		inplaceDet = fromSlice(3, b[:])
		v := a.MulColumnInv(numerical.Vec3{c.W[0], c.W[1], c.W[2]}, det)
		col = v[:]
	default:
		a := toMod3(m)
		got = fromSlice(3, a.Inverse()[:])
		orig = append(orig, a[:]...)
		b := *a
		b.InvertInPlace()
		inplace = fromSlice(3, b[:])
		b = *a
		b.InvertInPlaceDet(det)
		inplaceDet = fromSlice(3, b[:])
		v := a.MulColumnInv(model3d.XYZ(c.W[0], c.W[1], c.W[2]), det)
		col = []float64{v.X, v.Y, v.Z}
	}
	// cond <= 10, ||M^-1|| <= 1/0.3: the adjugate formula loses a few hundred ulps at most
	// (measured worst 3e-15); 1e-12 leaves two orders of margin and is 1e6 below any wrong entry.
	const tol = 1e-12
	if e := maxDiffD(mulD(m, got), identD(c.N)); !within("inverse/M*inv", e, tol) {
		return fmt.Errorf("M*Inverse(M) differs from the identity by %g (tolerance %g); M=%v", e, tol, m.a)
	}
	if e := maxDiffD(got, want); !within("inverse/planted", e, tol) {
		return fmt.Errorf("Inverse(M) differs from the planted inverse Q2*diag(1/s)*Q1^T by %g; M=%v", e, m.a)
	}
	if e := maxDiffD(inplace, want); !within("inverse/inplace", e, tol) {
		return fmt.Errorf("InvertInPlace differs from the planted inverse by %g; M=%v", e, m.a)
	}
	if e := maxDiffD(inplaceDet, want); !within("inverse/inplace-det", e, tol) {
		return fmt.Errorf("InvertInPlaceDet(det) differs from the planted inverse by %g; M=%v", e, m.a)
	}
	if e := maxDiffV(col, wantCol); !within("inverse/mulcolumninv", e, 4*c3(c.N)*tol) {
		return fmt.Errorf("MulColumnInv(w, det) = %v, want M^-1 w = %v", col, wantCol)
	}
	if maxDiffV(orig, m.a) != 0 {
		return fmt.Errorf("Inverse() modified its receiver")
	}
	return nil
}

func c3(n int) float64 { return float64(n) }

// ---------------------------------------------------------------------------
// singular value decomposition

func libSVD(c matCase, m dmat) (u, s, v dmat) {
	switch {
	case c.N == 2 && c.Impl == "numerical":
		var a, b, d numerical.Matrix2
		toNum2(m).SVD(&a, &b, &d)
		return fromSlice(2, a[:]), fromSlice(2, b[:]), fromSlice(2, d[:])
	case c.N == 2:
		var a, b, d model2d.Matrix2
		toMod2(m).SVD(&a, &b, &d)
		return fromSlice(2, a[:]), fromSlice(2, b[:]), fromSlice(2, d[:])
	case c.N == 3 && c.Impl == "numerical":
		var a, b, d numerical.Matrix3
		toNum3(m).SVD(&a, &b, &d)
		return fromSlice(3, a[:]), fromSlice(3, b[:]), fromSlice(3, d[:])
	case c.N == 3:
		var a, b, d model3d.Matrix3
		toMod3(m).SVD(&a, &b, &d)
		return fromSlice(3, a[:]), fromSlice(3, b[:]), fromSlice(3, d[:])
	}
	var a, b, d numerical.Matrix4
	toNum4(m).SVD(&a, &b, &d)
	return fromSlice(4, a[:]), fromSlice(4, b[:]), fromSlice(4, d[:])
}

// svdTol: the library obtains singular values as square roots of closed-form
// roots of the characteristic polynomial of M^T M, which loses half the digits
// when two singular values (nearly) coincide; see the calibration note in TestProp.
var svdTol = map[int]float64{2: 1e-7, 3: 1e-6, 4: 1e-5}

func checkSVD(c matCase, o *kit.Obs) error {
	if err := c.valid(); err != nil {
		return err
	}
	c.label(o)
	m := c.dense()
	u, s, v := libSVD(c, m)
	tol := svdTol[c.N]
	tag := fmt.Sprintf("svd%d/%s/", c.N, c.Tie)
	for i := 0; i < c.N; i++ {
		for j := 0; j < c.N; j++ {
			x := s.at(i, j)
			if i != j && x != 0 {
				return fmt.Errorf("S[%d][%d] = %g, want a diagonal matrix; M=%v", i, j, x, m.a)
			}
			if i == j && !(x >= 0) {
				return fmt.Errorf("singular value S[%d] = %g is not non-negative; M=%v", i, x, m.a)
			}
		}
		if i > 0 && !(s.at(i-1, i-1) >= s.at(i, i)) {
			return fmt.Errorf("singular values not sorted largest to smallest: %g before %g; M=%v", s.at(i-1, i-1), s.at(i, i), m.a)
		}
	}
	if e := maxDiffD(mulD(tD(u), u), identD(c.N)); !within(tag+"UtU", e, tol) {
		return fmt.Errorf("U^T U differs from the identity by %g (tolerance %g); M=%v U=%v", e, tol, m.a, u.a)
	}
	if e := maxDiffD(mulD(tD(v), v), identD(c.N)); !within(tag+"VtV", e, tol) {
		return fmt.Errorf("V^T V differs from the identity by %g (tolerance %g); M=%v V=%v", e, tol, m.a, v.a)
	}
	if e := maxDiffD(mulD(mulD(u, s), tD(v)), m); !within(tag+"USVt", e, tol) {
		return fmt.Errorf("U*S*V^T differs from M by %g (tolerance %g); M=%v", e, tol, m.a)
	}
	want := sortedDesc(absAll(c.S))
	var got []float64
	for i := 0; i < c.N; i++ {
		got = append(got, s.at(i, i))
	}
	// singular values are perfectly conditioned (Weyl): the planted |S| must come back
	if e := maxDiffV(got, want); !within(tag+"planted", e, tol) {
		return fmt.Errorf("singular values %v, planted %v (difference %g, tolerance %g); M=%v", got, want, e, tol, m.a)
	}
	return nil
}

// ---------------------------------------------------------------------------
// eigenvalues

func libEig(c matCase, m dmat) []complex128 {
	switch {
	case c.N == 2 && c.Impl == "numerical":
		e := toNum2(m).Eigenvalues()
		return e[:]
	case c.N == 2:
		e := toMod2(m).Eigenvalues()
		return e[:]
	case c.Impl == "numerical":
		e := toNum3(m).Eigenvalues()
		return e[:]
	}
	e := toMod3(m).Eigenvalues()
	return e[:]
}

func checkEigen(c matCase, o *kit.Obs) error {
	if err := c.valid(); err != nil {
		return err
	}
	if c.N > 3 {
		return fmt.Errorf("%w: no 4x4 Eigenvalues in the library", kit.ErrInfra)
	}
	c.label(o)
	m := c.dense()
	eig := libEig(c, m)
	if len(eig) != c.N {
		return fmt.Errorf("%d eigenvalues returned for a %dx%d matrix", len(eig), c.N, c.N)
	}
	tag := fmt.Sprintf("eig%d/", c.N)
	var sum complex128
	complexPair := false
	for _, l := range eig {
		if cmplx.IsNaN(l) || cmplx.IsInf(l) {
			return fmt.Errorf("eigenvalue %v is not finite; M=%v", l, m.a)
		}
		sum += l
		if math.Abs(imag(l)) > 1e-6 {
			complexPair = true
		}
		// residual of the defining equation; ||M|| <= 3 and |lambda| <= 3, so the terms of the
		// determinant are bounded by 6^n; the residual is second order in the eigenvalue error
		// near a repeated root, hence small even where the closed form loses digits
		r := cmplx.Abs(cdet(m, l))
		if !within(tag+"residual", r, 1e-10) {
			return fmt.Errorf("det(M - lambda I) = %g for returned eigenvalue %v (tolerance 1e-10); M=%v", r, l, m.a)
		}
	}
	if complexPair {
		o.Label("complex-pair")
	}
	if e := cmplx.Abs(sum - complex(traceD(m), 0)); !within(tag+"trace", e, 1e-10) {
		return fmt.Errorf("eigenvalues %v sum to %v, trace is %g; M=%v", eig, sum, traceD(m), m.a)
	}
	// pairwise products (n = 3) and the product: the remaining coefficients of the characteristic polynomial
	prod := complex(1, 0)
	for _, l := range eig {
		prod *= l
	}
	if e := cmplx.Abs(prod - complex(detD(m), 0)); !within(tag+"det", e, 1e-7) {
		return fmt.Errorf("eigenvalues %v multiply to %v, determinant is %g; M=%v", eig, prod, detD(m), m.a)
	}
	if c.Sym {
		// symmetric: the planted eigenvalues are perfectly conditioned
		var re []float64
		for _, l := range eig {
			if !within(tag+"sym-imag", math.Abs(imag(l)), 1e-6) {
				return fmt.Errorf("symmetric matrix has eigenvalue %v with imaginary part; M=%v", l, m.a)
			}
			re = append(re, real(l))
		}
		sort.Float64s(re)
		want := append([]float64(nil), c.S...)
		sort.Float64s(want)
		if e := maxDiffV(re, want); !within(tag+"sym-planted/"+c.Tie, e, 1e-6) {
			return fmt.Errorf("eigenvalues %v, planted %v (difference %g, tolerance 1e-6); M=%v", re, want, e, m.a)
		}
	}
	return nil
}

// ---------------------------------------------------------------------------
// Matrix4.CharPoly

func horner(p []float64, x float64) float64 {
	var r float64
	for i := len(p) - 1; i >= 0; i-- {
		r = r*x + p[i]
	}
	return r
}

func checkCharPoly(c matCase, o *kit.Obs) error {
	if err := c.valid(); err != nil {
		return err
	}
	if c.N != 4 {
		return fmt.Errorf("%w: CharPoly exists for Matrix4 only", kit.ErrInfra)
	}
	c.label(o)
	m := c.dense()
	p := toNum4(m).CharPoly()
	if len(p) != 5 {
		return fmt.Errorf("CharPoly has %d coefficients, want 5", len(p))
	}
	// det(M - xI) is monic for n = 4 under both sign conventions
	for _, x := range c.W {
		a := m
		a.a = append([]float64(nil), m.a...)
		for i := 0; i < 4; i++ {
			a.set(i, i, a.at(i, i)-x)
		}
		want := detD(a)
		got := horner(p, x)
		// |x| <= 4, ||M|| <= 3: |det| <= 7^4 = 2401; 24-term sums of 4-fold products: error << 1e-10
		if e := math.Abs(got - want); !within("charpoly/eval", e, 1e-10) {
			return fmt.Errorf("CharPoly(%g) = %g, det(M - xI) = %g; M=%v", x, got, want, m.a)
		}
	}
	if c.Sym {
		for _, l := range c.S {
			if e := math.Abs(horner(p, l)); !within("charpoly/planted-root", e, 1e-10) {
				return fmt.Errorf("CharPoly(%g) = %g at a planted eigenvalue; M=%v", l, horner(p, l), m.a)
			}
		}
	}
	return nil
}

// ---------------------------------------------------------------------------
// rotations

type rotCase struct {
	Dim   int     `json:"dim"`
	Impl  string  `json:"impl"`
	Axis  kit.V3  `json:"axis"` // direction, normalised by the check (the constructors assume unit axes)
	Angle float64 `json:"angle"`
}

func genRot(t *rapid.T) rotCase {
	c := rotCase{Dim: rapid.IntRange(2, 3).Draw(t, "dim"), Impl: rapid.SampledFrom([]string{"numerical", "model"}).Draw(t, "impl")}
	c.Axis = gen.Dir3(t, "axis")
	c.Angle = gen.F(t, -10, 10, "angle")
	return c
}

func checkRotation(c rotCase, o *kit.Obs) error {
	o.Labelf("dim:%d/%s", c.Dim, c.Impl)
	if math.Abs(math.Sin(c.Angle)) > 1e-3 {
		o.NonTrivial()
	}
	co, si := math.Cos(c.Angle), math.Sin(c.Angle)
	const tol = 1e-13
	if c.Dim == 2 {
		var got dmat
		if c.Impl == "numerical" {
			got = fromSlice(2, numerical.NewMatrix2Rotation(c.Angle)[:])
		} else {
			got = fromSlice(2, model2d.NewMatrix2Rotation(c.Angle)[:])
		}
		want := fromSlice(2, []float64{co, -si, si, co})
		if e := maxDiffD(got, want); !within("rotation/2d", e, tol) {
			return fmt.Errorf("NewMatrix2Rotation(%g) = %v, want the counter-clockwise rotation %v", c.Angle, got.a, want.a)
		}
		return nil
	}
	n := c.Axis.Norm()
	if !(n > 0.1) {
		return fmt.Errorf("%w: degenerate axis", kit.ErrInfra)
	}
	k := c.Axis.Scale(1 / n)
	ax := 0
	for i := 0; i < 3; i++ {
		if k[i] != 0 {
			ax++
		}
	}
	if ax == 1 {
		o.Label("axis-aligned")
	}
	var got dmat
	if c.Impl == "numerical" {
		got = fromSlice(3, numerical.NewMatrix3Rotation(numerical.Vec3{k[0], k[1], k[2]}, c.Angle)[:])
	} else {
		got = fromSlice(3, model3d.NewMatrix3Rotation(model3d.XYZ(k[0], k[1], k[2]), c.Angle)[:])
	}
	// Rodrigues: R = cos I + sin [k]x + (1-cos) k k^T (right-handed about k)
	want := newD(3)
	kx := [3][3]float64{{0, -k[2], k[1]}, {k[2], 0, -k[0]}, {-k[1], k[0], 0}}
	for i := 0; i < 3; i++ {
		for j := 0; j < 3; j++ {
			v := si*kx[i][j] + (1-co)*k[i]*k[j]
			if i == j {
				v += co
			}
			want.set(i, j, v)
		}
	}
	if e := maxDiffD(mulD(tD(got), got), identD(3)); !within("rotation/orthogonal", e, tol) {
		return fmt.Errorf("rotation about %v by %g is not orthogonal (R^T R - I = %g)", k, c.Angle, e)
	}
	if e := math.Abs(detD(got) - 1); !within("rotation/det", e, tol) {
		return fmt.Errorf("rotation about %v by %g has determinant %g", k, c.Angle, detD(got))
	}
	if e := maxDiffV(mulVecD(got, k[:]), k[:]); !within("rotation/axis", e, tol) {
		return fmt.Errorf("rotation about %v by %g moves its axis to %v", k, c.Angle, mulVecD(got, k[:]))
	}
	if e := maxDiffD(got, want); !within("rotation/rodrigues", e, tol) {
		return fmt.Errorf("rotation about %v by %g = %v, Rodrigues' formula (right-handed) gives %v", k, c.Angle, got.a, want.a)
	}
	return nil
}

// ---------------------------------------------------------------------------
// OrthoBasis

type basisCase struct {
	Kind string     `json:"kind"` // coord3d | vec3 | vec4
	V    [4]float64 `json:"v"`
}

func genBasis(t *rapid.T) basisCase {
	c := basisCase{Kind: rapid.SampledFrom([]string{"coord3d", "vec3", "vec4"}).Draw(t, "kind")}
	n := 3
	if c.Kind == "vec4" {
		n = 4
	}
	mode := rapid.SampledFrom([]string{"generic", "generic", "axis", "near-axis", "equal-abs"}).Draw(t, "mode")
	scale := gen.LogF(t, 1e-3, 1e3, "scale")
	k := rapid.IntRange(0, n-1).Draw(t, "k")
	for i := 0; i < n; i++ {
		x := gen.F(t, 0.05, 1, "x")
		if rapid.Bool().Draw(t, "neg") {
			x = -x
		}
		switch mode {
		case "axis":
			if i != k {
				x = 0
			}
		case "near-axis":
			if i != k {
				x *= 1e-9
			}
		case "equal-abs":
			if i != k {
				x = math.Copysign(0.5, x)
			}
		}
		c.V[i] = x * scale
	}
	return c
}

func checkBasis(c basisCase, o *kit.Obs) error {
	n := 3
	if c.Kind == "vec4" {
		n = 4
	}
	v := append([]float64(nil), c.V[:n]...)
	var norm float64
	nz := 0
	for _, x := range v {
		norm += x * x
		if x != 0 {
			nz++
		}
	}
	norm = math.Sqrt(norm)
	if !(norm > 0) || !finiteAll(v...) {
		return fmt.Errorf("%w: zero vector", kit.ErrInfra)
	}
	o.Label("kind:" + c.Kind)
	if nz == 1 {
		o.Label("axis-aligned")
	} else {
		o.NonTrivial()
	}
	var vecs [][]float64
	vecs = append(vecs, v)
	for i := range vecs[0] {
		vecs[0][i] /= norm
	}
	switch c.Kind {
	case "coord3d":
		a, b := model3d.XYZ(c.V[0], c.V[1], c.V[2]).OrthoBasis()
		vecs = append(vecs, []float64{a.X, a.Y, a.Z}, []float64{b.X, b.Y, b.Z})
	case "vec3":
		a, b := numerical.Vec3{c.V[0], c.V[1], c.V[2]}.OrthoBasis()
		vecs = append(vecs, a[:], b[:])
	default:
		a, b, d := numerical.Vec4(c.V).OrthoBasis()
		vecs = append(vecs, a[:], b[:], d[:])
	}
	// orthonormality to 1e-12 (measured 4e-16)
	for i := 0; i < len(vecs); i++ {
		for j := i; j < len(vecs); j++ {
			var d float64
			for k := 0; k < n; k++ {
				d += vecs[i][k] * vecs[j][k]
			}
			want := 0.0
			if i == j {
				want = 1
			}
			if !within("orthobasis/gram", math.Abs(d-want), 1e-12) {
				return fmt.Errorf("%s OrthoBasis of %v: <b%d, b%d> = %g, want %g (b0 = normalised input); basis %v", c.Kind, v, i, j, d, want, vecs[1:])
			}
		}
	}
	if nz == 1 {
		// documented: "If v is axis-aligned, the other vectors will be as well."
		for i := 1; i < len(vecs); i++ {
			cnt := 0
			for _, x := range vecs[i] {
				if x != 0 {
					cnt++
				}
			}
			if cnt != 1 {
				return fmt.Errorf("%s OrthoBasis of axis-aligned %v returned %v, which is not axis-aligned", c.Kind, c.V[:n], vecs[i])
			}
		}
	}
	if c.Kind == "vec4" {
		// the code states (and the repository's own test asserts) a positive determinant of [v, b1, b2, b3]
		m := newD(4)
		for col := 0; col < 4; col++ {
			for r := 0; r < 4; r++ {
				m.set(r, col, vecs[col][r])
			}
		}
		if d := detD(m); !within("orthobasis/det4", math.Abs(d-1), 1e-12) {
			return fmt.Errorf("Vec4 OrthoBasis of %v: det[v, b1, b2, b3] = %g, want +1", v, d)
		}
	}
	return nil
}

// ---------------------------------------------------------------------------
// least squares (3 unknowns)

type lsqCase struct {
	Core   matCase      `json:"core"` // first three rows: a well-conditioned 3x3 block
	Extra  [][3]float64 `json:"extra"`
	B      []float64    `json:"b"`
	Lambda float64      `json:"lambda"`
	Eps    float64      `json:"eps"`
	Rank2  bool         `json:"rank2,omitempty"` // project every row onto the plane orthogonal to Core's first right factor column
}

func genLsq(t *rapid.T) lsqCase {
	c := lsqCase{Core: genMatCase(t, []int{3}, []string{"numerical"}, false)}
	n := rapid.IntRange(0, 12).Draw(t, "extra")
	for i := 0; i < n; i++ {
		c.Extra = append(c.Extra, [3]float64{gen.F(t, -1, 1, "ex"), gen.F(t, -1, 1, "ey"), gen.F(t, -1, 1, "ez")})
	}
	for i := 0; i < 3+n; i++ {
		c.B = append(c.B, gen.F(t, -3, 3, "b"))
	}
	if rapid.Bool().Draw(t, "reg") {
		c.Lambda = gen.LogF(t, 1e-3, 10, "lambda")
	}
	c.Eps = gen.LogF(t, 1e-9, 1e-4, "eps")
	c.Rank2 = rapid.IntRange(0, 4).Draw(t, "rank2") == 0
	return c
}

func checkLsq(c lsqCase, o *kit.Obs) error {
	if err := c.Core.valid(); err != nil {
		return err
	}
	if c.Core.N != 3 || len(c.B) != 3+len(c.Extra) || !(c.Eps >= 1e-9 && c.Eps <= 1e-4) || c.Lambda < 0 {
		return fmt.Errorf("%w: malformed least-squares case", kit.ErrInfra)
	}
	core := c.Core.dense()
	var rows [][3]float64
	for i := 0; i < 3; i++ {
		rows = append(rows, [3]float64{core.at(i, 0), core.at(i, 1), core.at(i, 2)})
	}
	rows = append(rows, c.Extra...)
	var null [3]float64
	if c.Rank2 {
		// rows <- rows (I - q q^T), q = first column of the right factor: A^T A keeps two eigenvalues
		// >= 0.09 and gets an exact null direction q (computed eigenvalue ~1e-16, far below eps >= 1e-9
		// only if the eigenvalue solver is accurate to that level: the band below decides)
		_, q2 := c.Core.factors()
		for i := 0; i < 3; i++ {
			null[i] = q2.at(i, 0)
		}
		for r := range rows {
			d := rows[r][0]*null[0] + rows[r][1]*null[1] + rows[r][2]*null[2]
			for i := 0; i < 3; i++ {
				rows[r][i] -= d * null[i]
			}
		}
		o.Label("rank2")
	}
	o.Labelf("rows:%d", len(rows)/4*4)
	if c.Lambda > 0 {
		o.Label("ridge")
	}
	if len(c.Extra) > 0 {
		o.NonTrivial()
	}
	a := make([]numerical.Vec3, len(rows))
	for i, r := range rows {
		a[i] = numerical.Vec3(r)
	}
	var x numerical.Vec3
	if c.Lambda == 0 {
		x = numerical.LeastSquares3(a, c.B, c.Eps)
	} else {
		x = numerical.LeastSquaresReg3(a, c.B, c.Lambda, c.Eps)
	}
	if !finiteAll(x[:]...) {
		return fmt.Errorf("solution %v is not finite", x)
	}
	// normal equations (A^T A + lambda I) x = A^T b
	ata := newD(3)
	atb := make([]float64, 3)
	for r, row := range rows {
		for i := 0; i < 3; i++ {
			atb[i] += row[i] * c.B[r]
			for j := 0; j < 3; j++ {
				ata.set(i, j, ata.at(i, j)+row[i]*row[j])
			}
		}
	}
	for i := 0; i < 3; i++ {
		ata.set(i, i, ata.at(i, i)+c.Lambda)
	}
	if c.Rank2 && c.Lambda == 0 {
		// pseudo-inverse: the null component of the solution must vanish (minimum norm); with a ridge
		// the matrix is regular again (smallest eigenvalue = lambda >= 1e-3 > eps)
		d := x[0]*null[0] + x[1]*null[1] + x[2]*null[2]
		if !within("lsq/min-norm", math.Abs(d), 1e-6*(1+maxAbsV(x[:]))) {
			return fmt.Errorf("rank-2 system: solution %v has component %g along the null direction %v (eigenvalues below epsilon=%g must be dropped)", x, d, null, c.Eps)
		}
	}
	lhs := mulVecD(ata, x[:])
	scale := maxAbsV(atb) + maxAbsV(ata.a)*maxAbsV(x[:])
	// the symmetric eigen-decomposition behind the pseudo-inverse is closed-form (cubic formula):
	// measured worst relative residual 2e-9 on near-repeated eigenvalues; tolerance 1e-6
	if e := maxDiffV(lhs, atb); !within("lsq/normal-eq", e, 1e-6*scale) {
		return fmt.Errorf("normal equations violated: (A^T A + %g I) x = %v, A^T b = %v (difference %g, tolerance %g); x = %v", c.Lambda, lhs, atb, e, 1e-6*scale, x)
	}
	return nil
}
