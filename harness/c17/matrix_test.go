package c17

// Dense matrix kernels: inverses, SVD, eigenvalues, rotations, CharPoly,
// OrthoBasis and 3-column least squares.

import (
	"fmt"
	"math"

	"github.com/unixpickle/model3d/model2d"
	"github.com/unixpickle/model3d/model3d"
	"github.com/unixpickle/model3d/numerical"
	"pgregory.net/rapid"
	"verifharness/kit"
)

// matCase describes M = Q1 * diag(S) * Q2^T with Q1, Q2 products of Givens
// rotations and |S[i]| in [0.3, 3]: cond(M) <= 10 and ||M|| <= 3 by construction.
// With Sym the right factor is Q1 (M symmetric with eigenvalues S).
type matCase struct {
	N    int       `json:"n"`
	Impl string    `json:"impl"` // "numerical" | "model" (model2d.Matrix2 / model3d.Matrix3)
	S    []float64 `json:"s"`
	L    []float64 `json:"l"`
	R    []float64 `json:"r"`
	Sym  bool      `json:"sym,omitempty"`
	Tie  string    `json:"tie,omitempty"` // how S was drawn (label only)
	W    []float64 `json:"w"`             // a probe vector / probe abscissae in [-4, 4]
	// Focus restricts the SVD check to one group of oracle clauses ("sorted": S diagonal, non-negative,
	// descending; "reconstruct": everything else, singular values compared as a multiset).  Never
	// generated; used by the known-finding replays so that each replay tracks exactly one defect.
	Focus string `json:"focus,omitempty"`
	// MagLog2 (SVD and eigenvalue clauses): the matrix is given in units of 2^MagLog2, an exact rescaling; singular
	// and eigenvalues scale with it and the factors do not change
	MagLog2 int `json:"mag_log2,omitempty"`
}

const sMin, sMax = 0.3, 3.0

func genMatCase(t *rapid.T, sizes []int, impls []string, symOK bool) matCase {
	c := matCase{N: rapid.SampledFrom(sizes).Draw(t, "n"), Impl: rapid.SampledFrom(impls).Draw(t, "impl")}
	if c.N == 4 {
		c.Impl = "numerical"
	}
	c.Tie = rapid.SampledFrom([]string{"none", "none", "spread", "spread", "pair", "all", "near"}).Draw(t, "tie")
	order := rapid.Permutation([]int{0, 1, 2, 3}[:c.N]).Draw(t, "order")
	for i := 0; i < c.N; i++ {
		s := LogF(t, sMin, sMax, "s")
		if c.Tie == "spread" {
			// one value per logarithmic band of [0.3, 3], kept off the band edges: separated by
			// more than the cluster gap by construction
			band := float64(order[i]) + F(t, 0.1, 0.9, "band")
			s = sMin * math.Pow(sMax/sMin, band/float64(c.N))
		}
		if i > 0 {
			s0 := math.Abs(c.S[0])
			switch {
			case c.Tie == "pair" && i == 1, c.Tie == "all":
				s = s0
			case c.Tie == "near" && i == 1:
				s = s0 * (1 + LogF(t, 1e-13, 1e-3, "rel"))
			}
		}
		s = math.Min(sMax, math.Max(sMin, s))
		if rapid.IntRange(0, 3).Draw(t, "neg") == 0 {
			s = -s
		}
		c.S = append(c.S, s)
	}
	// rotation style: structured (rapid's biased draws: many zero / tiny / half-turn angles), generic
	// (uniform angles) or a per-angle mixture
	style := rapid.SampledFrom([]string{"structured", "generic", "generic", "mixed"}).Draw(t, "rotstyle")
	generic := func() bool {
		return style == "generic" || (style == "mixed" && rapid.Bool().Draw(t, "generic"))
	}
	for i := 0; i < npairs(c.N); i++ {
		c.L = append(c.L, angleQ(t, generic(), "l"))
	}
	c.Sym = symOK && rapid.IntRange(0, 2).Draw(t, "sym") == 0
	for i := 0; i < npairs(c.N); i++ {
		c.R = append(c.R, angleQ(t, generic(), "r"))
	}
	for i := 0; i < c.N; i++ {
		c.W = append(c.W, F(t, -4, 4, "w"))
	}
	if rapid.IntRange(0, 2).Draw(t, "rescaled") == 0 {
		c.MagLog2 = rapid.IntRange(-20, 20).Draw(t, "mag_log2")
	}
	return c
}

// angleQ draws a multiple of 2*pi/2^20 in [-pi, pi]: quarter turns are hit exactly (as exactly as
// float64 allows: their cosine is 6e-17, the realistic "almost axis-aligned" input), and the smallest
// non-zero angle is 6e-6, so that squares of matrix entries cannot underflow (rapid's shrinker
// otherwise produces angles like 1e-160, whose squares are denormal - not an input a caller builds).
// rapid's integer draws favour small magnitudes and the interval ends, i.e. nearly axis-aligned
// rotations; with generic set the draw is passed through a bit mixer, which makes the angle
// uniform over the grid (a deterministic function of the drawn integer).
func angleQ(t *rapid.T, generic bool, label string) float64 {
	k := rapid.IntRange(-(1<<19), 1<<19).Draw(t, label)
	if generic {
		v := uint64(k + (1 << 19))
		v = (v ^ (v >> 30)) * 0xbf58476d1ce4e5b9
		v = (v ^ (v >> 27)) * 0x94d049bb133111eb
		v ^= v >> 31
		k = int(v%(1<<20+1)) - (1 << 19)
	}
	return float64(k) * (2 * math.Pi / (1 << 20))
}

func (c matCase) valid() error {
	if c.N < 2 || c.N > 4 || len(c.S) != c.N || len(c.L) != npairs(c.N) || len(c.R) != npairs(c.N) || len(c.W) != c.N {
		return fmt.Errorf("%w: malformed matrix case", kit.ErrInfra)
	}
	for _, s := range c.S {
		if a := math.Abs(s); !(a >= sMin*0.999 && a <= sMax*1.001) {
			return fmt.Errorf("%w: singular value %g outside the stated bounds", kit.ErrInfra, s)
		}
	}
	return nil
}

func (c matCase) factors() (q1, q2 dmat) {
	q1 = rotFromAngles(c.N, c.L)
	if c.Sym {
		return q1, q1
	}
	return q1, rotFromAngles(c.N, c.R)
}

func (c matCase) dense() dmat {
	q1, q2 := c.factors()
	return mulD(mulD(q1, diagD(c.S)), tD(q2))
}

func (c matCase) label(o *kit.Obs) {
	o.Labelf("n:%d/%s", c.N, c.Impl)
	o.Label("tie:" + c.Tie)
	if c.Sym {
		o.Label("symmetric")
	}
	neg := 0
	for _, s := range c.S {
		if s < 0 {
			neg++
		}
	}
	if neg%2 == 1 {
		o.Label("det<0")
	}
	rotated := false
	for _, a := range append(append([]float64{}, c.L...), c.R...) {
		if math.Abs(math.Sin(2*a)) > 1e-3 {
			rotated = true
		}
	}
	// non-trivial: not a (signed, permuted) diagonal matrix
	if rotated {
		o.NonTrivial()
	} else {
		o.Label("axis-aligned")
	}
}

func toNum2(m dmat) *numerical.Matrix2 { var r numerical.Matrix2; copy(r[:], m.a); return &r }
func toNum3(m dmat) *numerical.Matrix3 { var r numerical.Matrix3; copy(r[:], m.a); return &r }
func toNum4(m dmat) *numerical.Matrix4 { var r numerical.Matrix4; copy(r[:], m.a); return &r }
func toMod2(m dmat) *model2d.Matrix2   { var r model2d.Matrix2; copy(r[:], m.a); return &r }
func toMod3(m dmat) *model3d.Matrix3   { var r model3d.Matrix3; copy(r[:], m.a); return &r }

// ---------------------------------------------------------------------------
// inverses

func checkInverse(c matCase, o *kit.Obs) error {
	if err := c.valid(); err != nil {
		return err
	}
	if c.N > 3 {
		return fmt.Errorf("%w: no 4x4 inverse in the library", kit.ErrInfra)
	}
	c.label(o)
	m := c.dense()
	q1, q2 := c.factors()
	inv := make([]float64, c.N)
	for i, s := range c.S {
		inv[i] = 1 / s
	}
	want := mulD(mulD(q2, diagD(inv)), tD(q1)) // planted inverse
	det := detD(m)
	wantCol := mulVecD(want, c.W)

	var got, inplace, inplaceDet dmat
	var orig []float64
	var col []float64
	switch {
	case c.N == 2 && c.Impl == "numerical":
		a := toNum2(m)
		got = fromSlice(2, a.Inverse()[:])
		orig = append(orig, a[:]...)
		b := *a
		b.InvertInPlace()
		inplace = fromSlice(2, b[:])
		b = *a
		b.InvertInPlaceDet(det)
		inplaceDet = fromSlice(2, b[:])
		v := a.MulColumnInv(numerical.Vec2{c.W[0], c.W[1]}, det)
		col = v[:]
	case c.N == 2:
		a := toMod2(m)
		got = fromSlice(2, a.Inverse()[:])
		orig = append(orig, a[:]...)
		b := *a
		b.InvertInPlace()
		inplace = fromSlice(2, b[:])
		b = *a
		b.InvertInPlaceDet(det)
		inplaceDet = fromSlice(2, b[:])
		v := a.MulColumnInv(model2d.XY(c.W[0], c.W[1]), det)
		col = []float64{v.X, v.Y}
	case c.Impl == "numerical":
		a := toNum3(m)
		got = fromSlice(3, a.Inverse()[:])
		orig = append(orig, a[:]...)
		b := *a
		b.InvertInPlace()
		inplace = fromSlice(3, b[:])
		b = *a
		b.InvertInPlaceDet(det)
		inplaceDet = fromSlice(3, b[:])
		v := a.MulColumnInv(numerical.Vec3{c.W[0], c.W[1], c.W[2]}, det)
		col = v[:]
	default:
		a := toMod3(m)
		got = fromSlice(3, a.Inverse()[:])
		orig = append(orig, a[:]...)
		b := *a
		b.InvertInPlace()
		inplace = fromSlice(3, b[:])
		b = *a
		b.InvertInPlaceDet(det)
		inplaceDet = fromSlice(3, b[:])
		v := a.MulColumnInv(model3d.XYZ(c.W[0], c.W[1], c.W[2]), det)
		col = []float64{v.X, v.Y, v.Z}
	}
	// cond <= 10, ||M^-1|| <= 1/0.3: the adjugate formula loses a few hundred ulps at most
	// (measured worst 3e-15); 1e-12 leaves two orders of margin and is 1e6 below any wrong entry.
	const tol = 1e-12
	if e := maxDiffD(mulD(m, got), identD(c.N)); !within("inverse/M*inv", e, tol) {
		return fmt.Errorf("M*Inverse(M) differs from the identity by %g (tolerance %g); M=%v", e, tol, m.a)
	}
	if e := maxDiffD(got, want); !within("inverse/planted", e, tol) {
		return fmt.Errorf("Inverse(M) differs from the planted inverse Q2*diag(1/s)*Q1^T by %g; M=%v", e, m.a)
	}
	if e := maxDiffD(inplace, want); !within("inverse/inplace", e, tol) {
		return fmt.Errorf("InvertInPlace differs from the planted inverse by %g; M=%v", e, m.a)
	}
	if e := maxDiffD(inplaceDet, want); !within("inverse/inplace-det", e, tol) {
		return fmt.Errorf("InvertInPlaceDet(det) differs from the planted inverse by %g; M=%v", e, m.a)
	}
	if e := maxDiffV(col, wantCol); !within("inverse/mulcolumninv", e, 4*float64(c.N)*tol) {
		return fmt.Errorf("MulColumnInv(w, det) = %v, want M^-1 w = %v", col, wantCol)
	}
	if maxDiffV(orig, m.a) != 0 {
		return fmt.Errorf("Inverse() modified its receiver")
	}
	return nil
}

// ---------------------------------------------------------------------------
// singular value decomposition

func libSVD(c matCase, m dmat) (u, s, v dmat) {
	switch {
	case c.N == 2 && c.Impl == "numerical":
		var a, b, d numerical.Matrix2
		toNum2(m).SVD(&a, &b, &d)
		return fromSlice(2, a[:]), fromSlice(2, b[:]), fromSlice(2, d[:])
	case c.N == 2:
		var a, b, d model2d.Matrix2
		toMod2(m).SVD(&a, &b, &d)
		return fromSlice(2, a[:]), fromSlice(2, b[:]), fromSlice(2, d[:])
	case c.N == 3 && c.Impl == "numerical":
		var a, b, d numerical.Matrix3
		toNum3(m).SVD(&a, &b, &d)
		return fromSlice(3, a[:]), fromSlice(3, b[:]), fromSlice(3, d[:])
	case c.N == 3:
		var a, b, d model3d.Matrix3
		toMod3(m).SVD(&a, &b, &d)
		return fromSlice(3, a[:]), fromSlice(3, b[:]), fromSlice(3, d[:])
	}
	var a, b, d numerical.Matrix4
	toNum4(m).SVD(&a, &b, &d)
	return fromSlice(4, a[:]), fromSlice(4, b[:]), fromSlice(4, d[:])
}

// clusterMult is the size of the largest group of values lying within gap of one
// of its members (1 = all values separated by more than gap).
func clusterMult(vals []float64, gap float64) int {
	best := 1
	for i := range vals {
		n := 0
		for j := range vals {
			if math.Abs(vals[i]-vals[j]) <= gap {
				n++
			}
		}
		if n > best {
			best = n
		}
	}
	return best
}

// clusterGap: values closer than this count as one cluster for the tolerance tables below.
const clusterGap = 0.05

// The library finds eigenvalues (and singular values, through M^T M) as roots of the
// characteristic polynomial: closed forms for n <= 3, the bracketing root finder for n = 4.
// An m-fold (near-)repeated root of a polynomial whose coefficients carry rounding errors of
// relative size eps is only determined to about eps^(1/m); the repository's own test states this
// ("the characteristic polynomial is essentially (x-4)^4, so finding the root is very poorly
// conditioned") and accepts 1e-4 there against 1e-8 elsewhere.  Tolerances are therefore tabulated
// by the multiplicity m of the largest cluster of planted values (gap <= 0.05), each about 30x the
// worst error measured over 2e6 generated cases (see the CALIB output, C17_CALIB=1).
var svdTol = map[int][]float64{
	2: {0, 1e-11, 1e-6},
	3: {0, 1e-10, 1e-5, 1e-3},
	4: {0, 1e-8, 3e-3, 5e-3, 1e-2},
}
var eigTol = []float64{0, 1e-10, 1e-5, 1e-3}

// ---- input classes of Matrix4.SVD with confirmed defects (known findings; see replays/C17/kf-svd4-*.json)

// svd4DoublePairs: the singular values form two distinct pairs of (nearly) equal values, so the
// characteristic polynomial of M^T M has two double roots, touches the axis without crossing it,
// and the library's fallback takes a root of the derivative - which may be the local maximum
// between the two double roots, not an eigenvalue.
func svd4DoublePairs(c matCase) bool {
	a := sortedDesc(absAll(c.S))
	return a[0]-a[1] < 1e-5*a[0] && a[2]-a[3] < 1e-5*a[2] && a[1]-a[2] > 1e-5*a[1]
}

// svd4NoiseRow: for some eigenvalue l of M^T M = Q2 diag(s^2) Q2^T, some but not all rows of
// M^T M - l I are small (a coordinate axis lies in or near the eigenspace, e.g. after quarter
// turns whose cosine is 6e-17 rather than 0, or two close singular values).  The library
// normalises every non-zero row before a Gram-Schmidt pass that recognises the null direction by
// a fixed residual threshold of 1e-10; normalising a small row scales its rounding noise (and the
// error of the computed l) up, the residual noise passes the threshold and is itself normalised
// into the "null vector".  Row i has norm sqrt(sum_j (s_j^2 - l)^2 Q2[i][j]^2).  Measured on
// 1e6 matrices with separated singular values: errors up to 5e-5 (V not orthogonal, U S V^T != M)
// whenever the smallest row is below 3e-2, errors <= 5e-10 when every row is above 3e-2; with
// exact quarter turns the result is wrong by O(1).  The class is "smallest row < 0.1".
const svd4RowThreshold = 0.1

func svd4NoiseRow(c matCase) bool {
	_, q2 := c.factors()
	n := c.N
	for k := 0; k < n; k++ {
		lo, hi := math.Inf(1), 0.0
		for i := 0; i < n; i++ {
			var r float64
			for j := 0; j < n; j++ {
				d := c.S[j]*c.S[j] - c.S[k]*c.S[k]
				r += d * d * q2.at(i, j) * q2.at(i, j)
			}
			r = math.Sqrt(r)
			lo, hi = math.Min(lo, r), math.Max(hi, r)
		}
		// all rows at noise level (M^T M is a multiple of the identity up to 1e-6): every basis is a
		// valid answer and the defect is harmless; otherwise a small row is enough
		if lo < svd4RowThreshold && hi >= 1e-6 {
			return true
		}
	}
	return false
}

// ---------------------------------------------------------------------------
// least squares (3 unknowns)

// relative residual tolerance of the normal equations by eigenvalue-cluster multiplicity
var lsqTol = []float64{0, 1e-9, 1e-5, 1e-3}

// jacobiEig returns the eigenvalues of a symmetric matrix by cyclic Jacobi rotations.
func jacobiEig(m dmat) []float64 {
	n := m.n
	a := fromSlice(n, m.a)
	for sweep := 0; sweep < 30; sweep++ {
		var off float64
		for i := 0; i < n; i++ {
			for j := i + 1; j < n; j++ {
				off += a.at(i, j) * a.at(i, j)
			}
		}
		if off < 1e-40 {
			break
		}
		for p := 0; p < n; p++ {
			for q := p + 1; q < n; q++ {
				if a.at(p, q) == 0 {
					continue
				}
				th := (a.at(q, q) - a.at(p, p)) / (2 * a.at(p, q))
				t := 1 / (math.Abs(th) + math.Sqrt(th*th+1))
				if th < 0 {
					t = -t
				}
				c := 1 / math.Sqrt(t*t+1)
				s := t * c
				g := givens(n, p, q, 0)
				g.set(p, p, c)
				g.set(q, q, c)
				g.set(p, q, s)
				g.set(q, p, -s)
				a = mulD(mulD(tD(g), a), g)
			}
		}
	}
	ev := make([]float64, n)
	for i := range ev {
		ev[i] = a.at(i, i)
	}
	return ev
}

type lsqCase struct {
	Core   matCase      `json:"core"` // first three rows: a well-conditioned 3x3 block
	Extra  [][3]float64 `json:"extra"`
	B      []float64    `json:"b"`
	Lambda float64      `json:"lambda"`
	Eps    float64      `json:"eps"`
	Rank2  bool         `json:"rank2,omitempty"` // project every row onto the plane orthogonal to Core's first right factor column
}

func genLsq(t *rapid.T) lsqCase {
	c := lsqCase{Core: genMatCase(t, []int{3}, []string{"numerical"}, false)}
	n := rapid.IntRange(0, 12).Draw(t, "extra")
	for i := 0; i < n; i++ {
		c.Extra = append(c.Extra, [3]float64{F(t, -1, 1, "ex"), F(t, -1, 1, "ey"), F(t, -1, 1, "ez")})
	}
	for i := 0; i < 3+n; i++ {
		c.B = append(c.B, F(t, -3, 3, "b"))
	}
	if rapid.Bool().Draw(t, "reg") {
		c.Lambda = LogF(t, 1e-3, 10, "lambda")
	}
	c.Eps = LogF(t, 1e-9, 1e-4, "eps")
	c.Rank2 = rapid.IntRange(0, 4).Draw(t, "rank2") == 0
	return c
}

func checkLsq(c lsqCase, o *kit.Obs) error {
	if err := c.Core.valid(); err != nil {
		return err
	}
	if c.Core.N != 3 || len(c.B) != 3+len(c.Extra) || !(c.Eps >= 0.99e-9 && c.Eps <= 1.01e-4) || c.Lambda < 0 {
		return fmt.Errorf("%w: malformed least-squares case", kit.ErrInfra)
	}
	core := c.Core.dense()
	var rows [][3]float64
	for i := 0; i < 3; i++ {
		rows = append(rows, [3]float64{core.at(i, 0), core.at(i, 1), core.at(i, 2)})
	}
	rows = append(rows, c.Extra...)
	var null [3]float64
	// magnitude of the rows before the rank-2 projection: the projected rows keep a rounding residue
	// of this size (times eps) along the null direction, where the pseudo-inverse does not solve
	var preScale float64
	for r, row := range rows {
		preScale = math.Max(preScale, maxAbsV(row[:])*math.Abs(c.B[r]))
	}
	if c.Rank2 {
		// rows <- rows (I - q q^T), q = first column of the right factor: A^T A keeps two eigenvalues
		// >= 0.09 and gets an exact null direction q (computed eigenvalue ~1e-16, far below eps >= 1e-9
		// only if the eigenvalue solver is accurate to that level: the band below decides)
		_, q2 := c.Core.factors()
		for i := 0; i < 3; i++ {
			null[i] = q2.at(i, 0)
		}
		for r := range rows {
			d := rows[r][0]*null[0] + rows[r][1]*null[1] + rows[r][2]*null[2]
			for i := 0; i < 3; i++ {
				rows[r][i] -= d * null[i]
			}
		}
		o.Label("rank2")
	}
	o.Labelf("rows:%d", len(rows)/4*4)
	if c.Lambda > 0 {
		o.Label("ridge")
	}
	if len(c.Extra) > 0 {
		o.NonTrivial()
	}
	a := make([]numerical.Vec3, len(rows))
	for i, r := range rows {
		a[i] = numerical.Vec3(r)
	}
	var x numerical.Vec3
	if c.Lambda == 0 {
		x = numerical.LeastSquares3(a, c.B, c.Eps)
	} else {
		x = numerical.LeastSquaresReg3(a, c.B, c.Lambda, c.Eps)
	}
	if !finiteAll(x[:]...) {
		return fmt.Errorf("solution %v is not finite", x)
	}
	// normal equations (A^T A + lambda I) x = A^T b
	ata := newD(3)
	atb := make([]float64, 3)
	for r, row := range rows {
		for i := 0; i < 3; i++ {
			atb[i] += row[i] * c.B[r]
			for j := 0; j < 3; j++ {
				ata.set(i, j, ata.at(i, j)+row[i]*row[j])
			}
		}
	}
	for i := 0; i < 3; i++ {
		ata.set(i, i, ata.at(i, i)+c.Lambda)
	}
	if c.Rank2 && c.Lambda == 0 {
		// pseudo-inverse: the null component of the solution must vanish (minimum norm); with a ridge
		// the matrix is regular again (smallest eigenvalue = lambda >= 1e-3 > eps)
		d := x[0]*null[0] + x[1]*null[1] + x[2]*null[2]
		if !within("lsq/min-norm", math.Abs(d), 1e-6*(1+maxAbsV(x[:]))) {
			return fmt.Errorf("rank-2 system: solution %v has component %g along the null direction %v (eigenvalues below epsilon=%g must be dropped)", x, d, null, c.Eps)
		}
	}
	lhs := mulVecD(ata, x[:])
	// magnitudes before cancellation: A^T b is a sum over rows that may cancel (b nearly orthogonal to
	// the columns), and its rounding error is relative to the terms, not to the sum
	var terms float64
	for i := 0; i < 3; i++ {
		var tsum float64
		for r, row := range rows {
			tsum += math.Abs(row[i] * c.B[r])
		}
		terms = math.Max(terms, tsum)
	}
	scale := terms + maxAbsV(ata.a)*maxAbsV(x[:])
	if c.Rank2 {
		scale += float64(len(rows)) * preScale
	}
	// the symmetric eigen-decomposition behind the pseudo-inverse is closed-form (cubic formula), so
	// its accuracy depends on the multiplicity of the largest cluster of eigenvalues of A^T A + lambda I
	// (see svdTol); the eigenvalues are recomputed here by Jacobi rotations
	ev := jacobiEig(ata)
	mult := clusterMult(ev, clusterGap*maxAbsV(ev))
	o.Labelf("cluster:%d", mult)
	tol := lsqTol[mult] * scale
	if e := maxDiffV(lhs, atb); !within(fmt.Sprintf("lsq/normal-eq/m%d", mult), e, tol) {
		return fmt.Errorf("normal equations violated: (A^T A + %g I) x = %v, A^T b = %v (difference %g, tolerance %g); x = %v", c.Lambda, lhs, atb, e, tol, x)
	}
	return nil
}
