package c17

import (
	"runtime"
	"testing"

	"pgregory.net/rapid"
	"verifharness/kit"
)

const rule = "planted-solution inputs inside the stated conditioning bounds: matrices Q1*diag(s)*Q2^T with |s| in [0.3,3] (Givens-angle factors on a 2*pi/2^20 grid incl. exact quarter turns, structured or uniform; exact/near ties and band-separated s as classes), sparse SPD B^T B + I (n 1-60), polynomials from separated real roots in [-4,4] and irreducible quadratics (degree 1-8), bumpy recorded objectives, angles within +-100*pi, Bezier control polygons of degree 1-16, polylines with segment lengths >= 0.05, joined Bezier pieces. Floats are uniform (bit-mixed rapid draws) 4 times in 5 and rapid-biased (tiny/simple values) otherwise. Non-trivial: the case selects a specialised path (matrix not axis-aligned, RCM permutation != identity, degree >= 4 polynomial or Bezier / the cubic length quadrature, refined search with an oscillating objective, negative angle, non-first polyline segment or joined piece, t outside [0,1]). Distinct: hash of the JSON case."

func TestProp(t *testing.T) {
	runtime.GOMAXPROCS(2)
	defer calibReport()
	both := []string{"numerical", "model"}
	kit.Run(t, "C17", rule,
		kit.Clause[matCase]{Name: "C17/matrix/inverse", Quick: 30000, Thorough: 480000, Gen: func(t *rapid.T) matCase {
			return genMatCase(t, []int{2, 3}, both, true)
		}, Check: checkInverse},
		kit.Clause[matCase]{Name: "C17/matrix/svd", Quick: 40000, Thorough: 600000, Gen: func(t *rapid.T) matCase {
			// with a Matrix4.SVD finding active, re-draw (a bounded number of times, each counted) so that
			// the 4x4 share of the clause keeps exploring the part of the domain outside the known classes
			sizes := []int{2, 3, 3, 4, 4, 4}
			for try := 0; ; try++ {
				c := genMatCase(t, sizes, both, true)
				if c.N != 4 || try >= 12 {
					return c
				}
				sizes = []int{4}
				if kit.Excluded("svd4-double-pairs") && svd4DoublePairs(c) {
					kit.CountExcluded("svd4-double-pairs")
					continue
				}
				if kit.Excluded("svd4-noise-row") && svd4NoiseRow(c) {
					kit.CountExcluded("svd4-noise-row")
					continue
				}
				return c
			}
		}, Check: checkSVD},
		kit.Clause[intSVDCase]{Name: "C17/matrix/svd-integer", Quick: 20000, Thorough: 400000, Gen: genIntSVD, Check: checkIntSVD},
		kit.Clause[matCase]{Name: "C17/matrix/eigenvalues", Quick: 30000, Thorough: 480000, Gen: func(t *rapid.T) matCase {
			return genMatCase(t, []int{2, 3, 3}, both, true)
		}, Check: checkEigen},
		kit.Clause[matCase]{Name: "C17/matrix/charpoly", Quick: 15000, Thorough: 200000, Gen: func(t *rapid.T) matCase {
			return genMatCase(t, []int{4}, []string{"numerical"}, true)
		}, Check: checkCharPoly},
		kit.Clause[rotCase]{Name: "C17/matrix/rotation", Quick: 20000, Thorough: 240000, Gen: genRot, Check: checkRotation},
		kit.Clause[basisCase]{Name: "C17/vec/orthobasis", Quick: 30000, Thorough: 400000, Gen: genBasis, Check: checkBasis},
		kit.Clause[lsqCase]{Name: "C17/lsq/normal-equations", Quick: 30000, Thorough: 400000, Gen: genLsq, Check: checkLsq},
		kit.Clause[sparseCase]{Name: "C17/sparse/cholesky", Quick: 12000, Thorough: 160000, Gen: func(t *rapid.T) sparseCase { return genSparse(t, 60) }, Check: checkSparse},
		kit.Clause[cgCase]{Name: "C17/sparse/bicgstab", Quick: 8000, Thorough: 100000, Gen: genCG, Check: checkCG, Budget: 30e9},
		kit.Clause[polyCase]{Name: "C17/poly/real-roots", Quick: 60000, Thorough: 1000000, Gen: genPoly, Check: checkPoly, Budget: 30e9},
		kit.Clause[quadCase]{Name: "C17/poly/scale-separated-roots", Quick: 10000, Thorough: 300000, Gen: genQuad, Check: checkQuad, Budget: 30e9},
		kit.Clause[optCase]{Name: "C17/opt/gss", Quick: 20000, Thorough: 240000, Gen: func(t *rapid.T) optCase {
			return genOpt(t, []string{"gss", "gss-unimodal"})
		}, Check: checkOpt},
		kit.Clause[optCase]{Name: "C17/opt/line-search", Quick: 30000, Thorough: 320000, Gen: func(t *rapid.T) optCase {
			return genOpt(t, []string{"line", "line", "recursive2", "recursive3", "recursive4"})
		}, Check: checkOpt},
		kit.Clause[optCase]{Name: "C17/opt/grid-search", Quick: 20000, Thorough: 240000, Gen: func(t *rapid.T) optCase {
			return genOpt(t, []string{"grid2", "grid3"})
		}, Check: checkOpt},
		kit.Clause[angleCase]{Name: "C17/angle/canonical", Quick: 50000, Thorough: 800000, Gen: genAngle, Check: checkCanonical},
		kit.Clause[angleCase]{Name: "C17/angle/dist", Quick: 50000, Thorough: 800000, Gen: genAngle, Check: checkAngleDist},
		kit.Clause[bezCase]{Name: "C17/bezier/eval-split-polynomials", Quick: 30000, Thorough: 400000, Gen: genBez, Check: checkBezier},
		kit.Clause[monoCase]{Name: "C17/bezier/inverse-x", Quick: 15000, Thorough: 200000, Gen: genMono, Check: checkMono},
		kit.Clause[lenCase]{Name: "C17/bezier/length", Quick: 3000, Thorough: 32000, Gen: genLen, Check: checkLength},
		kit.Clause[segCase]{Name: "C17/curve/segment-curve", Quick: 30000, Thorough: 400000, Gen: genSeg, Check: checkSegCurve},
		kit.Clause[joinCase]{Name: "C17/curve/joined-curve", Quick: 30000, Thorough: 400000, Gen: genJoin, Check: checkJoined},
	)
}
