package c17

// Reference linear algebra and calibration bookkeeping.  Nothing in this file
// calls the library under test.

import (
	"fmt"
	"math"
	"os"
	"sort"
	"sync"
)

// dmat is a dense square matrix in row-major order.
type dmat struct {
	n int
	a []float64
}

func newD(n int) dmat                  { return dmat{n, make([]float64, n*n)} }
func (m dmat) at(i, j int) float64     { return m.a[i*m.n+j] }
func (m dmat) set(i, j int, v float64) { m.a[i*m.n+j] = v }

func identD(n int) dmat {
	m := newD(n)
	for i := 0; i < n; i++ {
		m.set(i, i, 1)
	}
	return m
}

func diagD(s []float64) dmat {
	m := newD(len(s))
	for i, v := range s {
		m.set(i, i, v)
	}
	return m
}

func fromSlice(n int, a []float64) dmat {
	return dmat{n, append([]float64(nil), a...)}
}

func mulD(a, b dmat) dmat {
	n := a.n
	c := newD(n)
	for i := 0; i < n; i++ {
		for j := 0; j < n; j++ {
			var s float64
			for k := 0; k < n; k++ {
				s += a.at(i, k) * b.at(k, j)
			}
			c.set(i, j, s)
		}
	}
	return c
}

func tD(a dmat) dmat {
	c := newD(a.n)
	for i := 0; i < a.n; i++ {
		for j := 0; j < a.n; j++ {
			c.set(j, i, a.at(i, j))
		}
	}
	return c
}

func mulVecD(a dmat, v []float64) []float64 {
	out := make([]float64, a.n)
	for i := 0; i < a.n; i++ {
		for j := 0; j < a.n; j++ {
			out[i] += a.at(i, j) * v[j]
		}
	}
	return out
}

// maxDiffD is the largest absolute entry of a-b (NaN counts as +Inf).
func maxDiffD(a, b dmat) float64 {
	var m float64
	for i := range a.a {
		d := math.Abs(a.a[i] - b.a[i])
		if math.IsNaN(d) {
			return math.Inf(1)
		}
		m = math.Max(m, d)
	}
	return m
}

func maxDiffV(a, b []float64) float64 {
	var m float64
	for i := range a {
		d := math.Abs(a[i] - b[i])
		if math.IsNaN(d) {
			return math.Inf(1)
		}
		m = math.Max(m, d)
	}
	return m
}

func maxAbsV(a []float64) float64 {
	var m float64
	for _, x := range a {
		m = math.Max(m, math.Abs(x))
	}
	return m
}

// givens is the rotation by th in the (i, j) coordinate plane.
func givens(n, i, j int, th float64) dmat {
	g := identD(n)
	c, s := math.Cos(th), math.Sin(th)
	g.set(i, i, c)
	g.set(j, j, c)
	g.set(i, j, -s)
	g.set(j, i, s)
	return g
}

func npairs(n int) int { return n * (n - 1) / 2 }

// rotFromAngles is the product of Givens rotations over all coordinate planes
// (any element of SO(n) can be written this way); ang has n(n-1)/2 entries.
func rotFromAngles(n int, ang []float64) dmat {
	q := identD(n)
	k := 0
	for i := 0; i < n; i++ {
		for j := i + 1; j < n; j++ {
			q = mulD(q, givens(n, i, j, ang[k]))
			k++
		}
	}
	return q
}

// detD is the determinant by LU with partial pivoting.
func detD(m dmat) float64 {
	n := m.n
	a := append([]float64(nil), m.a...)
	det := 1.0
	for c := 0; c < n; c++ {
		p := c
		for r := c + 1; r < n; r++ {
			if math.Abs(a[r*n+c]) > math.Abs(a[p*n+c]) {
				p = r
			}
		}
		if a[p*n+c] == 0 {
			return 0
		}
		if p != c {
			for k := 0; k < n; k++ {
				a[p*n+k], a[c*n+k] = a[c*n+k], a[p*n+k]
			}
			det = -det
		}
		det *= a[c*n+c]
		for r := c + 1; r < n; r++ {
			f := a[r*n+c] / a[c*n+c]
			for k := c; k < n; k++ {
				a[r*n+k] -= f * a[c*n+k]
			}
		}
	}
	return det
}

// cdet is det(M - lambda I) for n = 2, 3 in complex arithmetic (cofactor expansion).
func cdet(m dmat, l complex128) complex128 {
	e := func(i, j int) complex128 {
		v := complex(m.at(i, j), 0)
		if i == j {
			v -= l
		}
		return v
	}
	switch m.n {
	case 2:
		return e(0, 0)*e(1, 1) - e(0, 1)*e(1, 0)
	case 3:
		return e(0, 0)*(e(1, 1)*e(2, 2)-e(1, 2)*e(2, 1)) -
			e(0, 1)*(e(1, 0)*e(2, 2)-e(1, 2)*e(2, 0)) +
			e(0, 2)*(e(1, 0)*e(2, 1)-e(1, 1)*e(2, 0))
	}
	panic("cdet: unsupported size")
}

func traceD(m dmat) float64 {
	var s float64
	for i := 0; i < m.n; i++ {
		s += m.at(i, i)
	}
	return s
}

func sortedDesc(x []float64) []float64 {
	y := append([]float64(nil), x...)
	sort.Sort(sort.Reverse(sort.Float64Slice(y)))
	return y
}

func absAll(x []float64) []float64 {
	y := make([]float64, len(x))
	for i, v := range x {
		y[i] = math.Abs(v)
	}
	return y
}

func finiteAll(x ...float64) bool {
	for _, v := range x {
		if math.IsNaN(v) || math.IsInf(v, 0) {
			return false
		}
	}
	return true
}

// ---------------------------------------------------------------------------
// calibration: with C17_CALIB set, every tolerance comparison records the
// worst observed error/tolerance ratio; printed at the end of the run.

var calibOn = os.Getenv("C17_CALIB") != ""
var calibMu sync.Mutex
var calibMax = map[string]float64{}
var calibAbs = map[string]float64{}

// within reports err <= tol (false for NaN) and records the ratio under name.
func within(name string, err, tol float64) bool {
	if calibOn {
		calibMu.Lock()
		if r := err / tol; r > calibMax[name] || math.IsNaN(r) {
			calibMax[name] = r
			calibAbs[name] = err
		}
		calibMu.Unlock()
	}
	return err <= tol
}

func calibReport() {
	if !calibOn {
		return
	}
	var names []string
	for k := range calibMax {
		names = append(names, k)
	}
	sort.Strings(names)
	for _, k := range names {
		fmt.Printf("CALIB %-40s worst err/tol = %.3g (err %.3g)\n", k, calibMax[k], calibAbs[k])
	}
}
