package c17

// Polynomial real roots, the search optimisers and the angle helpers.

import (
	"fmt"
	"math"
	"sort"

	"github.com/unixpickle/model3d/numerical"
	"github.com/unixpickle/model3d/toolbox3d"
	"pgregory.net/rapid"
	"verifharness/kit"
)

// ---------------------------------------------------------------------------
// polynomial real roots

// polyCase: lead * prod (x - Roots[i]) * prod (x^2 + b x + (b^2 + d)/4): planted
// real roots in [-4, 4] separated by >= 0.3, quadratic factors with discriminant
// -d <= -0.8 (no real root, minimum value d/4 >= 0.2), degree 1..8.
type polyCase struct {
	Roots []float64    `json:"roots"`
	Quads [][2]float64 `json:"quads"` // (b, d)
	Lead  float64      `json:"lead"`
	Pad   int          `json:"pad"`  // zero coefficients appended above the leading one
	Stop  int          `json:"stop"` // IterRealRoots: return false from the Stop-th callback (0: never)
}

const rootSep = 0.3

func genPoly(t *rapid.T) polyCase {
	deg := rapid.IntRange(1, 8).Draw(t, "degree")
	nq := rapid.IntRange(0, deg/2).Draw(t, "quadratics")
	if rapid.IntRange(0, 2).Draw(t, "allreal") == 0 {
		nq = 0
	}
	k := deg - 2*nq
	var c polyCase
	if k > 0 {
		// spread the slack 8 - 0.3(k-1) over k+1 gaps: separation >= 0.3 and range [-4, 4] by construction
		w := make([]float64, k+1)
		var sum float64
		for i := range w {
			w[i] = F(t, 0, 1, "gap") + 1e-3
			sum += w[i]
		}
		slack := 8 - rootSep*float64(k-1)
		r := -4.0
		for i := 0; i < k; i++ {
			r += slack * w[i] / sum
			if i > 0 {
				r += rootSep
			}
			c.Roots = append(c.Roots, r)
		}
	}
	for i := 0; i < nq; i++ {
		c.Quads = append(c.Quads, [2]float64{F(t, -4, 4, "qb"), LogF(t, 0.8, 8, "qd")})
	}
	c.Lead = LogF(t, 0.1, 10, "lead")
	if rapid.Bool().Draw(t, "neglead") {
		c.Lead = -c.Lead
	}
	c.Pad = rapid.SampledFrom([]int{0, 0, 0, 1, 2}).Draw(t, "pad")
	if k > 0 && rapid.IntRange(0, 3).Draw(t, "stop") == 0 {
		c.Stop = rapid.IntRange(1, k).Draw(t, "stopat")
	}
	return c
}

func polyMul(p, q []float64) []float64 {
	out := make([]float64, len(p)+len(q)-1)
	for i, x := range p {
		for j, y := range q {
			out[i+j] += x * y
		}
	}
	return out
}

func checkPoly(c polyCase, o *kit.Obs) error {
	deg := len(c.Roots) + 2*len(c.Quads)
	if deg < 1 || deg > 8 || !(math.Abs(c.Lead) >= 0.099 && math.Abs(c.Lead) <= 10.01) || c.Pad < 0 || c.Pad > 4 {
		return fmt.Errorf("%w: malformed polynomial case", kit.ErrInfra)
	}
	for i, r := range c.Roots {
		if !(r >= -4-1e-9 && r <= 4+1e-9) || (i > 0 && !(r-c.Roots[i-1] >= rootSep-1e-9)) {
			return fmt.Errorf("%w: planted roots %v violate the separation/range bounds", kit.ErrInfra, c.Roots)
		}
	}
	p := []float64{c.Lead}
	for _, r := range c.Roots {
		p = polyMul(p, []float64{-r, 1})
	}
	for _, q := range c.Quads {
		if !(q[1] >= 0.8-1e-9 && q[1] <= 8.01 && math.Abs(q[0]) <= 4) {
			return fmt.Errorf("%w: quadratic factor outside the bounds", kit.ErrInfra)
		}
		p = polyMul(p, []float64{(q[0]*q[0] + q[1]) / 4, q[0], 1})
	}
	// conditioning of the planted roots with respect to the (rounded) coefficients handed to the
	// library: |delta r| <= eps * sum |a_k| |r|^k / |p'(r)|.  The stated bounds keep this below 1e-9
	// except for clusters of many roots at the far end of the range; those are skipped (and counted).
	var worst float64
	for _, r := range c.Roots {
		var mag, d float64
		for k := len(p) - 1; k >= 0; k-- {
			mag = mag*math.Abs(r) + math.Abs(p[k])
		}
		for k := len(p) - 1; k >= 1; k-- {
			d = d*r + float64(k)*p[k]
		}
		worst = math.Max(worst, 1.2e-16*mag/math.Abs(d))
	}
	o.Labelf("degree:%d", deg)
	o.Labelf("real:%d", len(c.Roots))
	if c.Pad > 0 {
		o.Label("padded")
	}
	if worst*100 > 1e-7 {
		o.Skip("planted roots ill-conditioned (eps*cond*100 > 1e-7)")
		return nil
	}
	if deg >= 4 {
		// beyond the closed forms: bracketing between derivative roots plus deflation
		o.NonTrivial()
	}
	lib := make(numerical.Polynomial, len(p)+c.Pad)
	copy(lib, p)
	const tol = 1e-7
	if c.Stop > 0 {
		calls := 0
		var seen []float64
		lib.IterRealRoots(func(x float64) bool {
			calls++
			seen = append(seen, x)
			return calls < c.Stop
		})
		o.Label("early-stop")
		if calls != c.Stop {
			return fmt.Errorf("IterRealRoots: callback returned false at call %d but was called %d times (polynomial %v)", c.Stop, calls, p)
		}
		for _, x := range seen {
			ok := false
			for _, r := range c.Roots {
				if math.Abs(x-r) <= tol {
					ok = true
				}
			}
			if !ok {
				return fmt.Errorf("IterRealRoots reported %g, not a planted root %v (polynomial %v)", x, c.Roots, p)
			}
		}
		return nil
	}
	before := append(numerical.Polynomial(nil), lib...)
	got := append([]float64(nil), lib.RealRoots()...)
	// a root query only reads the polynomial: the caller's coefficients are unchanged and asking again gives
	// the same answer
	for i := range before {
		if math.Float64bits(before[i]) != math.Float64bits(lib[i]) {
			return fmt.Errorf("RealRoots changed the polynomial it was called on: coefficient %d was %v, is %v (all: %v -> %v)", i, before[i], lib[i], before, lib)
		}
	}
	again := lib.RealRoots()
	if len(again) != len(got) {
		return fmt.Errorf("RealRoots called twice on the same polynomial %v returned %v and then %v", before, got, again)
	}
	for i := range again {
		if again[i] != got[i] {
			return fmt.Errorf("RealRoots called twice on the same polynomial %v returned %v and then %v", before, got, again)
		}
	}
	sort.Float64s(got)
	if len(got) != len(c.Roots) {
		return fmt.Errorf("RealRoots returned %d roots %v, planted %d real roots %v (and %d irreducible quadratics); coefficients %v", len(got), got, len(c.Roots), c.Roots, len(c.Quads), p)
	}
	for i := range got {
		if !within(fmt.Sprintf("poly/root/deg%d", deg), math.Abs(got[i]-c.Roots[i]), tol) {
			return fmt.Errorf("RealRoots returned %v, planted %v (root %d off by %g, tolerance %g); coefficients %v", got, c.Roots, i, math.Abs(got[i]-c.Roots[i]), tol, p)
		}
	}
	return nil
}

// ---- quadratics (and cubics) whose roots differ by many orders of magnitude: a tiny leading or
// constant coefficient, where -b +- sqrt(b^2 - 4ac) cancels catastrophically

type quadCase struct {
	R1 float64 `json:"r1"` // moderate root, 0.1 <= |r1| <= 10
	R2 float64 `json:"r2"` // |r2/r1| or |r1/r2| in [1e3, 1e17]
	R3 float64 `json:"r3"` // 0: quadratic; else a second moderate root (cubic), separated from r1 by >= 0.3
	A  float64 `json:"a"`  // leading coefficient
}

func genQuad(t *rapid.T) quadCase {
	sign := func(label string) float64 {
		if rapid.Bool().Draw(t, label) {
			return -1
		}
		return 1
	}
	c := quadCase{R1: sign("neg1") * LogF(t, 0.1, 10, "r1")}
	rho := LogF(t, 1e3, 1e17, "ratio")
	if rapid.Bool().Draw(t, "small") {
		c.R2 = sign("neg2") * math.Abs(c.R1) / rho
	} else {
		c.R2 = sign("neg2") * math.Abs(c.R1) * rho
	}
	if rapid.IntRange(0, 2).Draw(t, "cubic") == 0 {
		// known finding: the closed-form cubic loses its digits (and roots) in the same situation
		if kit.Excluded("poly-cubic-scale-separation") {
			kit.CountExcluded("poly-cubic-scale-separation")
		} else {
			c.R3 = c.R1 + sign("neg3")*(rootSep+F(t, 0, 5, "gap3"))
			if c.R3 == 0 {
				c.R3 = rootSep
			}
		}
	}
	// scale so that the coefficients are of moderate size: the leading one is tiny when r2 is huge
	c.A = sign("nega") * LogF(t, 0.1, 10, "a") / math.Max(1, math.Abs(c.R2))
	return c
}

func checkQuad(c quadCase, o *kit.Obs) error {
	a1, a2 := math.Abs(c.R1), math.Abs(c.R2)
	ratio := math.Max(a1/a2, a2/a1)
	if !(a1 >= 0.0999 && a1 <= 10.01) || !(ratio >= 999 && ratio <= 1e18) || !(math.Abs(c.A) > 1e-20 && math.Abs(c.A) < 11) ||
		(c.R3 != 0 && !(math.Abs(c.R3-c.R1) >= rootSep-1e-9 && math.Abs(c.R3) <= 16)) {
		return fmt.Errorf("%w: malformed scale-separated case", kit.ErrInfra)
	}
	roots := []float64{c.R1, c.R2}
	p := polyMul([]float64{c.A}, polyMul([]float64{-c.R1, 1}, []float64{-c.R2, 1}))
	if c.R3 != 0 && kit.Excluded("poly-cubic-scale-separation") {
		kit.CountExcluded("poly-cubic-scale-separation")
		return nil
	}
	if c.R3 != 0 {
		p = polyMul(p, []float64{-c.R3, 1})
		roots = append(roots, c.R3)
		o.Label("cubic")
	} else {
		o.Label("quadratic")
	}
	if a2 > a1 {
		o.Label("tiny-leading-coefficient")
	} else {
		o.Label("tiny-constant-coefficient")
	}
	o.Labelf("ratio:1e%d", int(math.Log10(ratio))/4*4)
	o.NonTrivial()
	sort.Float64s(roots)
	got := append([]float64(nil), numerical.Polynomial(p).RealRoots()...)
	sort.Float64s(got)
	if len(got) != len(roots) {
		return fmt.Errorf("RealRoots of %v returned %v, planted roots %v", p, got, roots)
	}
	for i := range got {
		// roots of such different magnitudes are well conditioned relative to their own size (relative
		// condition ~1).  The library switches to the cancellation-free quadratic formula only below
		// 4ac/b^2 = 1e-6, so just above that threshold about six digits are lost: measured worst
		// relative error 2.7e-10, tolerance 1e-8
		tol := 1e-8 * math.Abs(roots[i])
		if !within(fmt.Sprintf("poly/scales/deg%d", len(roots)), math.Abs(got[i]-roots[i]), tol) {
			return fmt.Errorf("RealRoots of %v returned %v, planted roots %v (root %d off by %g relative)", p, got, roots, i, math.Abs(got[i]-roots[i])/math.Abs(roots[i]))
		}
	}
	return nil
}

// ---------------------------------------------------------------------------
// optimisers

// optCase: objective f(p) = sum_k A_k sin(<W_k, p> + P_k) - Q |p - C|^2 (bumpy, finite), recorded.
type optCase struct {
	Kind  string      `json:"kind"` // gss | gss-unimodal | line | recursive2 | recursive3 | recursive4 | grid2 | grid3
	Min   []float64   `json:"min"`
	Size  []float64   `json:"size"` // max - min, each >= 0.1
	Stops []int       `json:"stops"`
	Rec   int         `json:"rec"`
	Maxi  bool        `json:"maximize"`
	Iters int         `json:"iters"`
	Waves [][]float64 `json:"waves"` // amplitude, phase, frequency per dimension
	Q     float64     `json:"q"`
	C     []float64   `json:"c"` // in the unit box, relative to min/size
	Slope [2]float64  `json:"slope"`
}

func optDim(kind string) int {
	switch kind {
	case "recursive2", "grid2":
		return 2
	case "recursive3", "grid3":
		return 3
	case "recursive4":
		return 4
	}
	return 1
}

func genOpt(t *rapid.T, kinds []string) optCase {
	c := optCase{Kind: rapid.SampledFrom(kinds).Draw(t, "kind")}
	d := optDim(c.Kind)
	maxStops := []int{0, 12, 7, 5, 3}[d]
	for i := 0; i < d; i++ {
		c.Min = append(c.Min, F(t, -5, 5, "min"))
		c.Size = append(c.Size, LogF(t, 0.1, 10, "size"))
		c.Stops = append(c.Stops, rapid.IntRange(1, maxStops).Draw(t, "stops"))
		c.C = append(c.C, F(t, 0, 1, "c"))
	}
	c.Rec = rapid.IntRange(0, 3).Draw(t, "rec")
	if d == 4 {
		c.Rec = rapid.IntRange(0, 1).Draw(t, "rec4")
	}
	c.Maxi = rapid.Bool().Draw(t, "maximize")
	c.Iters = rapid.SampledFrom([]int{0, 1, 2, 3, 5, 8, 13, 21, 34, 64, 100}).Draw(t, "iters")
	nw := rapid.IntRange(0, 4).Draw(t, "waves")
	for k := 0; k < nw; k++ {
		w := []float64{F(t, 0.1, 1, "amp"), F(t, 0, 6.3, "phase")}
		for i := 0; i < d; i++ {
			// up to ~40 periods across the interval: far above the sampling density, so refined
			// samples are effectively independent of the coarse ones
			w = append(w, F(t, -250, 250, "freq")/c.Size[i])
		}
		c.Waves = append(c.Waves, w)
	}
	c.Q = F(t, 0, 2, "q")
	c.Slope = [2]float64{LogF(t, 0.01, 100, "sl"), LogF(t, 0.01, 100, "sr")}
	return c
}

func (c optCase) valid() error {
	d := optDim(c.Kind)
	if len(c.Min) != d || len(c.Size) != d || len(c.Stops) != d || len(c.C) != d || c.Rec < 0 || c.Rec > 6 || c.Iters < 0 {
		return fmt.Errorf("%w: malformed optimiser case", kit.ErrInfra)
	}
	for i := 0; i < d; i++ {
		if !(c.Size[i] >= 0.0999) || c.Stops[i] < 1 || c.Stops[i] > 64 {
			return fmt.Errorf("%w: malformed optimiser case", kit.ErrInfra)
		}
	}
	for _, w := range c.Waves {
		if len(w) != 2+d {
			return fmt.Errorf("%w: malformed wave", kit.ErrInfra)
		}
	}
	return nil
}

func (c optCase) f(p []float64) float64 {
	var v float64
	for _, w := range c.Waves {
		arg := w[1]
		for i := range p {
			arg += w[2+i] * (p[i] - c.Min[i])
		}
		v += w[0] * math.Sin(arg)
	}
	for i := range p {
		u := (p[i]-c.Min[i])/c.Size[i] - c.C[i]
		v -= c.Q * u * u
	}
	return v
}

type sample struct {
	p []float64
	v float64
}

func checkOpt(c optCase, o *kit.Obs) error {
	if err := c.valid(); err != nil {
		return err
	}
	d := optDim(c.Kind)
	o.Label("kind:" + c.Kind)
	max := make([]float64, d)
	for i := range max {
		max[i] = c.Min[i] + c.Size[i]
	}
	var rec []sample
	record := func(p []float64) float64 {
		v := c.f(p)
		rec = append(rec, sample{append([]float64(nil), p...), v})
		return v
	}
	if c.Kind == "gss-unimodal" {
		// f = sl*(m - x) left of m, sr*(x - m) right of m: weakly unimodal in floating point as well
		m := c.Min[0] + c.C[0]*c.Size[0]
		f := func(x float64) float64 {
			if x < m {
				return c.Slope[0] * (m - x)
			}
			return c.Slope[1] * (x - m)
		}
		iters := c.Iters
		x := numerical.GSS(c.Min[0], max[0], iters, f)
		if iters == 0 {
			iters = numerical.DefaultGSSIters
		}
		o.Labelf("iters:%d", iters)
		o.NonTrivial()
		// the bracket [min, max] shrinks by the golden ratio per iteration and always contains m
		tol := 2*c.Size[0]*math.Pow((math.Sqrt(5)-1)/2, float64(iters)) + 1e-9*(1+math.Abs(c.Min[0])+math.Abs(max[0]))
		if !within("opt/gss-unimodal", math.Abs(x-m), tol) {
			return fmt.Errorf("GSS on a V-shaped function with minimum %g over [%g, %g], %d iterations, returned %g (off by %g, bracket bound %g)", m, c.Min[0], max[0], iters, x, math.Abs(x-m), tol)
		}
		return nil
	}
	var x []float64
	var fx float64
	hasValue := true
	maxi := c.Maxi
	switch c.Kind {
	case "gss":
		maxi = false
		hasValue = false
		x = []float64{numerical.GSS(c.Min[0], max[0], c.Iters, func(v float64) float64 { return record([]float64{v}) })}
	case "line":
		ls := &numerical.LineSearch{Stops: c.Stops[0], Recursions: c.Rec}
		f := func(v float64) float64 { return record([]float64{v}) }
		var a float64
		if maxi {
			a, fx = ls.Maximize(c.Min[0], max[0], f)
		} else {
			a, fx = ls.Minimize(c.Min[0], max[0], f)
		}
		x = []float64{a}
	case "recursive2":
		r := &numerical.RecursiveLineSearch[numerical.Vec2]{LineSearch: numerical.LineSearch{Stops: c.Stops[0], Recursions: c.Rec}}
		f := func(v numerical.Vec2) float64 { return record(v[:]) }
		var a numerical.Vec2
		if maxi {
			a, fx = r.Maximize(numerical.Vec2{c.Min[0], c.Min[1]}, numerical.Vec2{max[0], max[1]}, f)
		} else {
			a, fx = r.Minimize(numerical.Vec2{c.Min[0], c.Min[1]}, numerical.Vec2{max[0], max[1]}, f)
		}
		x = a[:]
	case "recursive3":
		r := &numerical.RecursiveLineSearch[numerical.Vec3]{LineSearch: numerical.LineSearch{Stops: c.Stops[0], Recursions: c.Rec}}
		f := func(v numerical.Vec3) float64 { return record(v[:]) }
		var a numerical.Vec3
		if maxi {
			a, fx = r.Maximize(numerical.Vec3{c.Min[0], c.Min[1], c.Min[2]}, numerical.Vec3{max[0], max[1], max[2]}, f)
		} else {
			a, fx = r.Minimize(numerical.Vec3{c.Min[0], c.Min[1], c.Min[2]}, numerical.Vec3{max[0], max[1], max[2]}, f)
		}
		x = a[:]
	case "recursive4":
		r := &numerical.RecursiveLineSearch[numerical.Vec4]{LineSearch: numerical.LineSearch{Stops: c.Stops[0], Recursions: c.Rec}}
		f := func(v numerical.Vec4) float64 { return record(v[:]) }
		var a numerical.Vec4
		var lo, hi numerical.Vec4
		copy(lo[:], c.Min)
		copy(hi[:], max)
		if maxi {
			a, fx = r.Maximize(lo, hi, f)
		} else {
			a, fx = r.Minimize(lo, hi, f)
		}
		x = a[:]
	case "grid2":
		g := &numerical.GridSearch2D{XStops: c.Stops[0], YStops: c.Stops[1], Recursions: c.Rec}
		f := func(v numerical.Vec2) float64 { return record(v[:]) }
		var a numerical.Vec2
		if maxi {
			a, fx = g.Maximize(numerical.Vec2{c.Min[0], c.Min[1]}, numerical.Vec2{max[0], max[1]}, f)
		} else {
			a, fx = g.Minimize(numerical.Vec2{c.Min[0], c.Min[1]}, numerical.Vec2{max[0], max[1]}, f)
		}
		x = a[:]
	case "grid3":
		g := &numerical.GridSearch3D{XStops: c.Stops[0], YStops: c.Stops[1], ZStops: c.Stops[2], Recursions: c.Rec}
		f := func(v numerical.Vec3) float64 { return record(v[:]) }
		var a numerical.Vec3
		if maxi {
			a, fx = g.Maximize(numerical.Vec3{c.Min[0], c.Min[1], c.Min[2]}, numerical.Vec3{max[0], max[1], max[2]}, f)
		} else {
			a, fx = g.Minimize(numerical.Vec3{c.Min[0], c.Min[1], c.Min[2]}, numerical.Vec3{max[0], max[1], max[2]}, f)
		}
		x = a[:]
	default:
		return fmt.Errorf("%w: unknown optimiser %q", kit.ErrInfra, c.Kind)
	}
	if len(rec) == 0 {
		return fmt.Errorf("%s never evaluated the objective", c.Kind)
	}
	if maxi {
		o.Label("maximize")
	} else {
		o.Label("minimize")
	}
	if c.Rec > 0 && len(c.Waves) > 0 && c.Kind != "gss" || c.Kind == "gss" && len(c.Waves) > 0 {
		o.NonTrivial()
	}
	for i := range x {
		// samples are min + (k+1/2)*step: inside the box up to rounding of the sum
		slack := 1e-12 * (1 + math.Abs(c.Min[i]) + math.Abs(max[i]))
		if !(x[i] >= c.Min[i]-slack && x[i] <= max[i]+slack) {
			return fmt.Errorf("%s returned %v outside the search box [%v, %v]", c.Kind, x, c.Min, max)
		}
	}
	// the returned point must be one the objective was evaluated at, with the reported value
	want := c.f(x)
	sampled := false
	for _, s := range rec {
		same := true
		for i := range x {
			if s.p[i] != x[i] {
				same = false
			}
		}
		if same {
			sampled = true
		}
	}
	if !sampled {
		return fmt.Errorf("%s returned %v, which is not among the %d points it evaluated", c.Kind, x, len(rec))
	}
	if hasValue && fx != want {
		return fmt.Errorf("%s returned value %v for point %v, but f(point) = %v", c.Kind, fx, x, want)
	}
	// no recorded sample is strictly better (exact comparison: the same float64 values the optimiser saw)
	bestIdx := 0
	for i, s := range rec {
		if (maxi && s.v > rec[bestIdx].v) || (!maxi && s.v < rec[bestIdx].v) {
			bestIdx = i
		}
	}
	if best := rec[bestIdx]; (maxi && best.v > want) || (!maxi && best.v < want) {
		// classify where the better sample was seen (coarse pass = first prod(stops) samples)
		return fmt.Errorf("%s (stops %v, recursions %d, maximize=%v) returned %v with value %v, but sample #%d of %d at %v has value %v", c.Kind, c.Stops, c.Rec, maxi, x, want, bestIdx, len(rec), best.p, best.v)
	}
	if bestIdx < prodInts(c.Stops) && c.Rec > 0 && c.Kind != "gss" {
		o.Label("best-sample-in-coarse-pass")
	}
	return nil
}

func prodInts(x []int) int {
	p := 1
	for _, v := range x {
		p *= v
	}
	return p
}

// ---------------------------------------------------------------------------
// angles

type angleCase struct {
	A float64 `json:"a"`
	B float64 `json:"b"`
}

func genAngle(t *rapid.T) angleCase {
	draw := func(label string) float64 {
		switch rapid.IntRange(0, 5).Draw(t, label+".mode") {
		case 0:
			// multiples of pi/2 (the wrap points), as exact as float64 allows
			return float64(rapid.IntRange(-200, 200).Draw(t, label+".k")) * math.Pi / 2
		case 1:
			// just beside a multiple of 2*pi
			return float64(rapid.IntRange(-50, 50).Draw(t, label+".k"))*2*math.Pi + F(t, -1e-9, 1e-9, label+".d")
		case 2:
			return F(t, -7, 7, label+".small")
		}
		return F(t, -100*math.Pi, 100*math.Pi, label)
	}
	return angleCase{draw("a"), draw("b")}
}

func checkCanonical(c angleCase, o *kit.Obs) error {
	if !(math.Abs(c.A) <= 100*math.Pi+1e-9) {
		return fmt.Errorf("%w: angle out of the stated range", kit.ErrInfra)
	}
	r := toolbox3d.CanonicalAngle(c.A)
	if c.A < 0 {
		o.NonTrivial()
		o.Label("negative")
	}
	if math.Abs(c.A) > 2*math.Pi {
		o.Label("multi-turn")
	}
	if !(r >= 0 && r <= 2*math.Pi) {
		return fmt.Errorf("CanonicalAngle(%v) = %v is outside [0, 2*pi]", c.A, r)
	}
	// congruence: |a| <= 100*pi is reduced modulo the float64 2*pi, whose error 2.4e-16 is multiplied
	// by at most 50 turns; sin and cos have unit Lipschitz constant
	if ds, dc := math.Abs(math.Sin(r)-math.Sin(c.A)), math.Abs(math.Cos(r)-math.Cos(c.A)); !within("angle/congruent", math.Max(ds, dc), 1e-12) {
		return fmt.Errorf("CanonicalAngle(%v) = %v is not congruent to its argument (sin differs by %g, cos by %g)", c.A, r, ds, dc)
	}
	return nil
}

func checkAngleDist(c angleCase, o *kit.Obs) error {
	if !(math.Abs(c.A) <= 100*math.Pi+1e-9 && math.Abs(c.B) <= 100*math.Pi+1e-9) {
		return fmt.Errorf("%w: angle out of the stated range", kit.ErrInfra)
	}
	if c.A < 0 || c.B < 0 {
		o.NonTrivial()
		o.Label("negative")
	}
	if (c.A < 0) != (c.B < 0) {
		o.Label("mixed-sign")
	}
	got := toolbox3d.AngleDist(c.A, c.B)
	// reference circular distance: IEEE remainder of the difference, in [-pi, pi]
	want := math.Abs(math.Remainder(c.A-c.B, 2*math.Pi))
	// rounding of a-b (<= 7e-14 at 200*pi) plus 100 turns of the 2*pi representation error
	if !within("angle/dist", math.Abs(got-want), 1e-11) {
		return fmt.Errorf("AngleDist(%v, %v) = %v, circular distance is %v", c.A, c.B, got, want)
	}
	if sym := toolbox3d.AngleDist(c.B, c.A); !within("angle/dist-sym", math.Abs(sym-got), 1e-11) {
		return fmt.Errorf("AngleDist(%v, %v) = %v but AngleDist with swapped arguments = %v", c.A, c.B, got, sym)
	}
	return nil
}
