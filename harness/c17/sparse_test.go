package c17

// Sparse SPD systems: SparseMatrix.Apply*, RCM/Permute, SparseCholesky and BiCGSTAB.

import (
	"fmt"
	"math"

	"github.com/unixpickle/model3d/numerical"
	"pgregory.net/rapid"
	"verifharness/kit"
)

type sparseEntry struct {
	I int     `json:"i"`
	J int     `json:"j"`
	V float64 `json:"v"`
}

// sparseCase: A = B^T B + I for a sparse square B with at most four entries per
// row in [-1, 1]: symmetric positive definite, smallest eigenvalue >= 1, largest
// <= 1 + ||B||_1 ||B||_inf <= 1 + 4n, so cond(A) <= 241 for n <= 60.
type sparseCase struct {
	N    int           `json:"n"`
	B    []sparseEntry `json:"b"`
	RHS  [][3]float64  `json:"rhs"`  // right-hand sides (three at once), entries in [-1, 1]
	X    [][3]float64  `json:"x"`    // vectors to multiply
	Rev  bool          `json:"rev"`  // insert the columns of each row in descending order
	Dim  int           `json:"dim"`  // 2: Vec2 API, 3: Vec3 API
	Diag bool          `json:"diag"` // shuffle: insert the diagonal entry of each row last
}

func genSparse(t *rapid.T, maxN int) sparseCase {
	n := rapid.IntRange(1, maxN).Draw(t, "n")
	c := sparseCase{N: n, Rev: rapid.Bool().Draw(t, "rev"), Dim: rapid.IntRange(2, 3).Draw(t, "dim"), Diag: rapid.Bool().Draw(t, "diaglast")}
	maxPer := 4
	if n < maxPer {
		maxPer = n
	}
	// per-row entry counts in [lo, hi]: mostly rows with several entries (B^T B then couples columns),
	// sometimes empty or single-entry rows only (A diagonal)
	lo, hi := 0, maxPer
	switch rapid.IntRange(0, 9).Draw(t, "density") {
	case 0:
		hi = 1
	case 1, 2, 3:
		lo = 1
	case 4, 5:
		lo = 2
	}
	if lo > maxPer {
		lo = maxPer
	}
	if hi > maxPer {
		hi = maxPer
	}
	for i := 0; i < n; i++ {
		k := rapid.IntRange(lo, hi).Draw(t, "k")
		cols := rapid.SliceOfNDistinct(rapid.IntRange(0, n-1), k, k, rapid.ID[int]).Draw(t, "cols")
		for _, j := range cols {
			c.B = append(c.B, sparseEntry{i, j, F(t, -1, 1, "v")})
		}
	}
	for i := 0; i < n; i++ {
		c.RHS = append(c.RHS, [3]float64{F(t, -1, 1, "b"), F(t, -1, 1, "b"), F(t, -1, 1, "b")})
		c.X = append(c.X, [3]float64{F(t, -1, 1, "x"), F(t, -1, 1, "x"), F(t, -1, 1, "x")})
	}
	return c
}

// build returns the dense reference A, its structural pattern and the library's sparse A.
func (c sparseCase) build() (a [][]float64, sp *numerical.SparseMatrix, offdiag int, err error) {
	n := c.N
	if n < 1 || n > 200 || len(c.RHS) != n || len(c.X) != n {
		return nil, nil, 0, fmt.Errorf("%w: malformed sparse case", kit.ErrInfra)
	}
	rows := make([][]sparseEntry, n)
	seen := map[[2]int]bool{}
	for _, e := range c.B {
		if e.I < 0 || e.I >= n || e.J < 0 || e.J >= n || seen[[2]int{e.I, e.J}] || math.Abs(e.V) > 1 {
			return nil, nil, 0, fmt.Errorf("%w: bad or duplicate entry of B", kit.ErrInfra)
		}
		seen[[2]int{e.I, e.J}] = true
		rows[e.I] = append(rows[e.I], e)
	}
	a = make([][]float64, n)
	pat := make([][]bool, n)
	for i := range a {
		a[i] = make([]float64, n)
		pat[i] = make([]bool, n)
		a[i][i] = 1
		pat[i][i] = true
	}
	for _, r := range rows {
		if len(r) > 4 {
			return nil, nil, 0, fmt.Errorf("%w: more than four entries in a row of B", kit.ErrInfra)
		}
		for _, e1 := range r {
			for _, e2 := range r {
				a[e1.J][e2.J] += e1.V * e2.V
				pat[e1.J][e2.J] = true
			}
		}
	}
	// exact symmetry (the sums above are accumulated in the same order for (i,j) and (j,i))
	sp = numerical.NewSparseMatrix(n)
	for i := 0; i < n; i++ {
		var cols []int
		for j := 0; j < n; j++ {
			if pat[i][j] && !(c.Diag && j == i) {
				cols = append(cols, j)
			}
			if pat[i][j] && i != j {
				offdiag++
			}
		}
		if c.Rev {
			for l, r := 0, len(cols)-1; l < r; l, r = l+1, r-1 {
				cols[l], cols[r] = cols[r], cols[l]
			}
		}
		if c.Diag {
			cols = append(cols, i)
		}
		for _, j := range cols {
			sp.Set(i, j, a[i][j])
		}
	}
	return a, sp, offdiag, nil
}

func denseApply(a [][]float64, x [][3]float64) [][3]float64 {
	out := make([][3]float64, len(x))
	for i, row := range a {
		for j, v := range row {
			if v != 0 {
				for k := 0; k < 3; k++ {
					out[i][k] += v * x[j][k]
				}
			}
		}
	}
	return out
}

func maxDiff3(a, b [][3]float64) float64 {
	var m float64
	for i := range a {
		for k := 0; k < 3; k++ {
			d := math.Abs(a[i][k] - b[i][k])
			if math.IsNaN(d) {
				return math.Inf(1)
			}
			m = math.Max(m, d)
		}
	}
	return m
}

func to3(x [][3]float64) []numerical.Vec3 {
	out := make([]numerical.Vec3, len(x))
	for i, v := range x {
		out[i] = v
	}
	return out
}
func to2(x [][3]float64) []numerical.Vec2 {
	out := make([]numerical.Vec2, len(x))
	for i, v := range x {
		out[i] = numerical.Vec2{v[0], v[1]}
	}
	return out
}
func from3(x []numerical.Vec3) [][3]float64 {
	out := make([][3]float64, len(x))
	for i, v := range x {
		out[i] = v
	}
	return out
}
func from2(x []numerical.Vec2, like [][3]float64) [][3]float64 {
	out := make([][3]float64, len(x))
	for i, v := range x {
		out[i] = [3]float64{v[0], v[1], like[i][2]}
	}
	return out
}

func checkSparse(c sparseCase, o *kit.Obs) error {
	a, sp, offdiag, err := c.build()
	if err != nil {
		return err
	}
	n := c.N
	o.Labelf("n:%d-%d", n/10*10, n/10*10+9)
	if offdiag == 0 {
		o.Label("diagonal")
	}
	var amax float64
	for _, r := range a {
		for _, v := range r {
			amax = math.Max(amax, math.Abs(v))
		}
	}
	// ---- SparseMatrix.Apply / ApplyVec2 / ApplyVec3 = dense product; at most n terms of size <= amax
	wantAx := denseApply(a, c.X)
	tolApply := 1e-13 * float64(n) * (1 + amax)
	{
		col := make(numerical.Vec, n)
		for i := range col {
			col[i] = c.X[i][0]
		}
		got := sp.Apply(col)
		for i := range got {
			if !within("sparse/apply", math.Abs(got[i]-wantAx[i][0]), tolApply) {
				return fmt.Errorf("SparseMatrix.Apply: row %d is %g, dense product gives %g", i, got[i], wantAx[i][0])
			}
		}
		var gotV [][3]float64
		if c.Dim == 3 {
			gotV = from3(sp.ApplyVec3(to3(c.X)))
		} else {
			gotV = from2(sp.ApplyVec2(to2(c.X)), wantAx)
		}
		if e := maxDiff3(gotV, wantAx); !within("sparse/applyvec", e, tolApply) {
			return fmt.Errorf("SparseMatrix.ApplyVec%d differs from the dense product by %g", c.Dim, e)
		}
	}
	// ---- RCM is a permutation and Permute conjugates by it
	perm := sp.RCM()
	if len(perm) != n {
		return fmt.Errorf("RCM returned %d indices for a %dx%d matrix", len(perm), n, n)
	}
	seen := make([]bool, n)
	ident := true
	for i, p := range perm {
		if p < 0 || p >= n || seen[p] {
			return fmt.Errorf("RCM result %v is not a permutation of 0..%d", perm, n-1)
		}
		seen[p] = true
		if p != i {
			ident = false
		}
	}
	if !ident {
		// label only: RCM breaks ties by map iteration order, so the permutation is not a function of the case
		o.Label("perm!=identity")
	}
	if offdiag > 0 {
		// off-diagonal coupling: the factorisation has fill and works on a re-ordered matrix
		o.NonTrivial()
	}
	{
		xp := make([][3]float64, n)
		for i, p := range perm {
			xp[i] = c.X[p]
		}
		got := from3(sp.Permute(perm).ApplyVec3(to3(xp)))
		want := make([][3]float64, n)
		for i, p := range perm {
			want[i] = wantAx[p]
		}
		if e := maxDiff3(got, want); !within("sparse/permute", e, tolApply) {
			return fmt.Errorf("Permute(RCM()) is not the conjugated matrix: (P A P^T)(P x) differs from P (A x) by %g; perm %v", e, perm)
		}
		if e := maxDiff3(from3(sp.Transpose().ApplyVec3(to3(c.X))), wantAx); !within("sparse/transpose", e, tolApply) {
			return fmt.Errorf("Transpose of a symmetric matrix applies differently (difference %g)", e)
		}
	}
	// ---- Cholesky
	chol := numerical.NewSparseCholesky(sp)
	var sol, app [][3]float64
	if c.Dim == 3 {
		sol = from3(chol.ApplyInverseVec3(to3(c.RHS)))
		app = from3(chol.ApplyVec3(to3(c.X)))
	} else {
		sol = from2(chol.ApplyInverseVec2(to2(c.RHS)), nil3(n))
		app = from2(chol.ApplyVec2(to2(c.X)), wantAx)
	}
	back := denseApply(a, sol)
	rhs := c.RHS
	if c.Dim == 2 {
		rhs = make([][3]float64, n)
		for i := range rhs {
			rhs[i] = [3]float64{c.RHS[i][0], c.RHS[i][1], 0}
		}
	}
	// cond <= 241, |b| <= 1: backward-stable factorisation, residual ~ n * eps * cond (measured 2e-14)
	if e := maxDiff3(back, rhs); !within("sparse/cholesky-inverse", e, 1e-10) {
		return fmt.Errorf("A * ApplyInverse(b) differs from b by %g (tolerance 1e-10), n=%d perm=%v", e, n, perm)
	}
	if e := maxDiff3(app, wantAx); !within("sparse/cholesky-apply", e, 1e-10*(1+amax)) {
		return fmt.Errorf("SparseCholesky.Apply(x) differs from A*x by %g, n=%d perm=%v", e, n, perm)
	}
	return nil
}

func nil3(n int) [][3]float64 { return make([][3]float64, n) }

// ---------------------------------------------------------------------------
// BiCGSTAB

type cgCase struct {
	Sys      sparseCase `json:"sys"`
	Guess    bool       `json:"guess"` // use Sys.X column 0 as the initial guess (else nil)
	MaxIters int        `json:"max_iters"`
	MSE      float64    `json:"mse"`
	MAE      float64    `json:"mae"`
}

func genCG(t *rapid.T) cgCase {
	c := cgCase{Sys: genSparse(t, 40), Guess: rapid.Bool().Draw(t, "guess")}
	// the right-hand side is bounded away from zero by construction ...
	c.Sys.RHS[0][0] = math.Copysign(0.1+0.9*math.Abs(c.Sys.RHS[0][0]), c.Sys.RHS[0][0])
	// ... except in the dedicated zero class: b = 0 with no initial guess, whose solution is x = 0
	if rapid.IntRange(0, 19).Draw(t, "zero-rhs") == 0 {
		if kit.Excluded("bicgstab-zero-residual") {
			kit.CountExcluded("bicgstab-zero-residual")
		} else {
			for i := range c.Sys.RHS {
				c.Sys.RHS[i][0] = 0
			}
			c.Guess = false
		}
	}
	// systems the method solves exactly in its first half step (A = I or A = 2I: every product is exact), so that
	// the solver keeps being asked for iterations after it has terminated internally
	if rapid.IntRange(0, 9).Draw(t, "identity-like") == 0 {
		c.Sys.B = nil
		if rapid.Bool().Draw(t, "twice") {
			for i := 0; i < c.Sys.N; i++ {
				c.Sys.B = append(c.Sys.B, sparseEntry{i, i, 1})
			}
		}
	}
	crit := rapid.IntRange(0, 3).Draw(t, "crit")
	if crit == 3 && kit.Excluded("bicgstab-iters-only-nan") {
		kit.CountExcluded("bicgstab-iters-only-nan")
		crit = 0
	}
	switch crit {
	case 0:
		c.MSE = LogF(t, 1e-18, 1e-4, "mse")
	case 1:
		c.MAE = LogF(t, 1e-9, 1e-2, "mae")
	case 2:
		c.MSE = LogF(t, 1e-18, 1e-4, "mse")
		c.MAE = LogF(t, 1e-9, 1e-2, "mae")
	}
	if crit == 3 || rapid.Bool().Draw(t, "bounded") {
		// exact arithmetic terminates within n iterations; 10n+50 is a generous cap on a cond <= 161 system
		c.MaxIters = 10*c.Sys.N + 50
	}
	return c
}

func checkCG(c cgCase, o *kit.Obs) error {
	a, _, offdiag, err := c.Sys.build()
	if err != nil {
		return err
	}
	n := c.Sys.N
	itersOnly := c.MSE <= 0 && c.MAE <= 0
	if itersOnly && c.MaxIters <= 0 {
		return fmt.Errorf("%w: no stopping criterion (documented panic)", kit.ErrInfra)
	}
	b := make(numerical.Vec, n)
	for i := range b {
		b[i] = c.Sys.RHS[i][0]
	}
	ops := 0
	op := func(v numerical.Vec) numerical.Vec {
		ops++
		out := make(numerical.Vec, n)
		for i, row := range a {
			for j, x := range row {
				out[i] += x * v[j]
			}
		}
		return out
	}
	zero := maxAbsV(b) == 0
	var guess numerical.Vec
	if c.Guess {
		guess = make(numerical.Vec, n)
		for i := range guess {
			guess[i] = c.Sys.X[i][0]
		}
		r0 := op(guess).Sub(b)
		if maxAbsV(r0) < 1e-3 {
			o.Skip("initial guess already solves the system")
			return nil
		}
		o.Label("init-guess")
	} else if zero {
		// known finding: a zero initial residual makes the first step divide 0 by 0
		if kit.Excluded("bicgstab-zero-residual") {
			kit.CountExcluded("bicgstab-zero-residual")
			return nil
		}
		o.Label("zero-rhs")
	} else if maxAbsV(b) < 0.09 {
		return fmt.Errorf("%w: right-hand side too small", kit.ErrInfra)
	}
	if itersOnly {
		if kit.Excluded("bicgstab-iters-only-nan") {
			kit.CountExcluded("bicgstab-iters-only-nan")
			return nil
		}
		o.Label("iterations-only")
	}
	if offdiag > 0 {
		o.NonTrivial()
	}
	solver := &numerical.BiCGSTABSolver{MaxIters: c.MaxIters, MSETolerance: c.MSE, MAETolerance: c.MAE}
	ops = 0
	x := solver.SolveLinearSystem(op, b, guess)
	// three operator calls per iteration (two in Iter, one for the stopping rule)
	switch it := (ops + 2) / 3; {
	case it <= n:
		o.Label("iterations<=n")
	case it <= 2*n:
		o.Label("iterations<=2n")
	default:
		o.Label("iterations>2n")
	}
	if len(x) != n {
		return fmt.Errorf("solution has %d entries, want %d", len(x), n)
	}
	res := op(x).Sub(b)
	var sq, abs float64
	for _, r := range res {
		sq += r * r
		abs += math.Abs(r)
	}
	if math.IsNaN(sq) || math.IsInf(sq, 0) {
		return fmt.Errorf("BiCGSTAB (n=%d, MaxIters=%d, MSE=%g, MAE=%g, %d operator calls) returned a non-finite solution %v", n, c.MaxIters, c.MSE, c.MAE, ops, x)
	}
	if itersOnly {
		// No tolerance is stated for an iteration-count-only configuration; the answer must be finite.  For A = I
		// and A = 2I every product of the first half step is exact: s = r - alpha*A*r is exactly zero, so the
		// method has found the solution and (as its comments say) stops updating.  Asking for more iterations
		// must then keep returning that solution: once an iterate solves such a system exactly (residual exactly
		// zero), every later iterate and the solver's final answer must do so too.  (Only for these systems: for
		// a general matrix an iterate can have a computed residual of exactly zero by coincidence while the
		// method's own recurrence residual is not zero, and later iterates may then legitimately differ by an ulp.)
		identityLike := offdiag == 0
		for i := range a {
			if a[i][i] != a[0][0] || (a[0][0] != 1 && a[0][0] != 2) {
				identityLike = false
			}
		}
		if identityLike {
			o.Label("identity-like")
			it := numerical.NewBiCGSTAB(op, b, guess)
			exactAt := -1
			for i := 0; i < c.MaxIters; i++ {
				r := maxAbsV(op(it.Iter()).Sub(b))
				if r == 0 && exactAt < 0 {
					exactAt = i
					o.Label("exact-before-max-iters")
				}
				if exactAt >= 0 && r != 0 {
					return fmt.Errorf("BiCGSTAB.Iter (A = %g*I, n=%d): iterate %d solved the system exactly, iterate %d has residual %g (the solver went back to a stale solution)", a[0][0], n, exactAt, i, r)
				}
			}
			if exactAt >= 0 && maxAbsV(res) != 0 {
				return fmt.Errorf("BiCGSTABSolver{MaxIters: %d} (A = %g*I, n=%d) returned a solution with residual %g although iterate %d of the same method solves the system exactly", c.MaxIters, a[0][0], n, maxAbsV(res), exactAt)
			}
		}
		return nil
	}
	// the stated stopping rule, with 0.1% slack for a different summation order
	okMSE := c.MSE > 0 && sq < c.MSE*float64(n)*1.001
	okMAE := c.MAE > 0 && abs < c.MAE*float64(n)*1.001
	if !okMSE && !okMAE {
		return fmt.Errorf("BiCGSTAB (n=%d, %d operator calls, MaxIters=%d) returned a solution with mean squared error %g and mean absolute error %g; tolerances MSE=%g MAE=%g", n, ops, c.MaxIters, sq/float64(n), abs/float64(n), c.MSE, c.MAE)
	}
	return nil
}
