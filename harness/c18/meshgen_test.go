package c18

import (
	"math"
	"sort"

	"github.com/unixpickle/model3d/model3d"
	"pgregory.net/rapid"
	"verifharness/gen"
	"verifharness/kit"
	"verifharness/m3"
)

// ---------------------------------------------------------------------------
// JSON mesh descriptions.  A mesh is a list of parts; every part is built from its
// description as a plain triangle list, optionally jittered (a deterministic function
// of the vertex position and a drawn seed, so equal vertices stay equal), optionally
// thinned (faces removed: "a subset of a manifold mesh" is a documented input of
// MeshToPlaneGraphs), placed by an affine transform and finally shifted so that the
// parts' bounding boxes are disjoint.
//
//	ico:    N=[n]                     NewMeshIcosphere(origin, 1, n)           genus 0, 20 n^2 faces
//	torus:  N=[inner, outer] P=[r]    NewMeshTorus(origin, z, r, 1, ...)       genus 1, 2*inner*outer faces
//	box:    N=[nx, ny, nz]            surface of the unit-cell grid box          genus 0, long coplanar runs
//	tori:   N=[k] P=[r, sep, delta]   marching cubes of k overlapping tori       genus k when resolved
//	csg:    Tree, P=[delta]           marching cubes of a random CSG tree        anything manifold
//	height: N=[nx, ny] P=[amp, a, b, phase]  graph of a smooth function on a grid  open disc
//	cap:    N=[n] P=[dx, dy, dz, c]   icosphere faces with centroid.d > c        open disc (adjusted until it is one)
//	fan:    N=[k] P=[h]               k triangles around an apex of height h over a regular k-gon: open disc with one interior vertex
type part struct {
	Kind   string       `json:"kind"`
	N      []int        `json:"n,omitempty"`
	P      []float64    `json:"p,omitempty"`
	Tree   *gen.Node    `json:"tree,omitempty"`
	Jitter float64      `json:"jitter,omitempty"` // fraction of the part's shortest edge
	XYJit  float64      `json:"xyjit,omitempty"`  // height: interior grid vertices are displaced by up to this much in x and y (<= 0.15 keeps every cell triangle positively oriented)
	Seed   uint64       `json:"seed,omitempty"`   // jitter / diagonal / thinning hash seed
	Drop   float64      `json:"drop,omitempty"`   // probability of removing a face (hash driven)
	Holes  [][4]float64 `json:"holes,omitempty"`  // balls (centre relative to the part's bbox in [0,1]^3, radius relative to its diagonal): faces with centroid inside are removed
	Place  *gen.Xform3  `json:"place,omitempty"`
}

type meshSpec struct {
	Parts    []part `json:"parts"`
	MaxFaces int    `json:"max_faces"`
}

func splitmix(x uint64) uint64 {
	x += 0x9e3779b97f4a7c15
	x = (x ^ (x >> 30)) * 0xbf58476d1ce4e5b9
	x = (x ^ (x >> 27)) * 0x94d049bb133111eb
	return x ^ (x >> 31)
}

// hash01 maps (seed, vertex, salt) to [0, 1).
func hash01(seed uint64, v kit.V3, salt uint64) float64 {
	h := splitmix(seed ^ salt*0x9e3779b97f4a7c15)
	for _, x := range v {
		if x == 0 {
			x = 0 // -0 and +0 are the same vertex
		}
		h = splitmix(h ^ math.Float64bits(x))
	}
	return float64(h>>11) / (1 << 53)
}

type prng struct{ s uint64 }

func (p *prng) next() uint64 { p.s += 0x9e3779b97f4a7c15; return splitmix(p.s) }
func (p *prng) f() float64   { return float64(p.next()>>11) / (1 << 53) }
func (p *prng) intn(n int) int {
	return int(p.next() % uint64(n))
}

func centroid(t kit.Tri) kit.V3 { return t[0].Add(t[1]).Add(t[2]).Scale(1.0 / 3) }

func bbox(ts []kit.Tri) (lo, hi kit.V3) {
	lo = kit.V3{math.Inf(1), math.Inf(1), math.Inf(1)}
	hi = kit.V3{math.Inf(-1), math.Inf(-1), math.Inf(-1)}
	for _, t := range ts {
		for _, v := range t {
			for i := 0; i < 3; i++ {
				lo[i] = math.Min(lo[i], v[i])
				hi[i] = math.Max(hi[i], v[i])
			}
		}
	}
	return
}

func minEdge(ts []kit.Tri) float64 {
	m := math.Inf(1)
	for _, t := range ts {
		for k := 0; k < 3; k++ {
			m = math.Min(m, t[k].Dist(t[(k+1)%3]))
		}
	}
	return m
}

// sortTris gives the triangle list an order that is a function of the geometry only
// (library meshes iterate in map order).
func sortTris(ts []kit.Tri) {
	key := func(t kit.Tri) [9]float64 {
		return [9]float64{t[0][0], t[0][1], t[0][2], t[1][0], t[1][1], t[1][2], t[2][0], t[2][1], t[2][2]}
	}
	sort.Slice(ts, func(i, j int) bool {
		a, b := key(ts[i]), key(ts[j])
		for k := range a {
			if a[k] != b[k] {
				return a[k] < b[k]
			}
		}
		return false
	})
}

func libTris(m *model3d.Mesh) []kit.Tri {
	ts := m3.Tris(m)
	sortTris(ts)
	return ts
}

func boxSurface(nx, ny, nz int) []kit.Tri {
	var ts []kit.Tri
	n := [3]int{nx, ny, nz}
	quad := func(a, b, c, d kit.V3, flip bool, alt bool) {
		// a,b,c,d counter-clockwise seen from outside unless flip
		if flip {
			b, d = d, b
		}
		if alt {
			ts = append(ts, kit.Tri{a, b, d}, kit.Tri{b, c, d})
		} else {
			ts = append(ts, kit.Tri{a, b, c}, kit.Tri{a, c, d})
		}
	}
	for ax := 0; ax < 3; ax++ {
		u, v := (ax+1)%3, (ax+2)%3
		for side := 0; side < 2; side++ {
			for i := 0; i < n[u]; i++ {
				for j := 0; j < n[v]; j++ {
					mk := func(di, dj int) kit.V3 {
						var p kit.V3
						p[ax] = float64(side * n[ax])
						p[u] = float64(i + di)
						p[v] = float64(j + dj)
						return p
					}
					// for side=1 the outward normal is +ax: (u, v) counter-clockwise
					quad(mk(0, 0), mk(1, 0), mk(1, 1), mk(0, 1), side == 0, (i+j)%2 == 1)
				}
			}
		}
	}
	return ts
}

func heightPatch(nx, ny int, amp, a, b, phase, xyjit float64, seed uint64) []kit.Tri {
	at := func(i, j int) kit.V3 {
		x, y := float64(i), float64(j)
		if xyjit > 0 && i > 0 && j > 0 && i < nx && j < ny {
			x += 2 * xyjit * (hash01(seed, kit.V3{x, y, 1}, 41) - 0.5)
			y += 2 * xyjit * (hash01(seed, kit.V3{x, y, 2}, 42) - 0.5)
		}
		return kit.V3{x, y, amp * (math.Sin(a*x+phase)*math.Cos(b*y-phase) + 0.3*math.Sin(0.7*(x+y)))}
	}
	var ts []kit.Tri
	for i := 0; i < nx; i++ {
		for j := 0; j < ny; j++ {
			p00, p10, p11, p01 := at(i, j), at(i+1, j), at(i+1, j+1), at(i, j+1)
			if hash01(seed, kit.V3{float64(i), float64(j), 0}, 7) < 0.5 {
				ts = append(ts, kit.Tri{p00, p10, p11}, kit.Tri{p00, p11, p01})
			} else {
				ts = append(ts, kit.Tri{p00, p10, p01}, kit.Tri{p10, p11, p01})
			}
		}
	}
	return ts
}

func mcLimited(s model3d.Solid, delta float64, maxFaces int) []kit.Tri {
	for i := 0; i < 12; i++ {
		m := model3d.MarchingCubesSearch(s, delta, 4)
		if m.NumTriangles() <= maxFaces {
			return libTris(m)
		}
		delta *= 1.25
	}
	return nil
}

func buildPart(p part, maxFaces int) []kit.Tri {
	var ts []kit.Tri
	switch p.Kind {
	case "ico":
		ts = libTris(model3d.NewMeshIcosphere(model3d.Origin, 1, p.N[0]))
	case "torus":
		ts = libTris(model3d.NewMeshTorus(model3d.Origin, model3d.Z(1), p.P[0], 1, p.N[0], p.N[1]))
	case "box":
		ts = boxSurface(p.N[0], p.N[1], p.N[2])
	case "tori":
		var js model3d.JoinedSolid
		for k := 0; k < p.N[0]; k++ {
			js = append(js, &model3d.Torus{Center: model3d.X(float64(k) * p.P[1]), Axis: model3d.XYZ(0.05, 0.02, 1), OuterRadius: 1, InnerRadius: p.P[0]})
		}
		ts = mcLimited(js, p.P[2], maxFaces)
	case "csg":
		ts = mcLimited(p.Tree.Build(), p.P[0], maxFaces)
	case "height":
		ts = heightPatch(p.N[0], p.N[1], p.P[0], p.P[1], p.P[2], p.P[3], p.XYJit, p.Seed)
	case "fan":
		k := p.N[0]
		ring := make([]kit.V3, k)
		for i := range ring {
			th := 2 * math.Pi * float64(i) / float64(k)
			ring[i] = kit.V3{math.Cos(th), math.Sin(th), 0}
			if k == 4 {
				// exact symmetric positions (cos(pi/2) is not 0 in doubles)
				ring[i] = [4]kit.V3{{1, 0, 0}, {0, 1, 0}, {-1, 0, 0}, {0, -1, 0}}[i]
			}
		}
		for i := range ring {
			ts = append(ts, kit.Tri{{0, 0, p.P[0]}, ring[i], ring[(i+1)%k]})
		}
	case "cap":
		all := libTris(model3d.NewMeshIcosphere(model3d.Origin, 1, p.N[0]))
		d := kit.V3{p.P[0], p.P[1], p.P[2]}.Unit()
		// adjust the threshold until the cap is a disc (a pinched or empty cap is not a valid Floater input)
		for k := 0; k < 40; k++ {
			c := p.P[3] - 0.04*float64(k)
			var cap []kit.Tri
			for _, t := range all {
				if centroid(t).Unit().Dot(d) > c {
					cap = append(cap, t)
				}
			}
			if len(cap) >= 1 && len(cap) < len(all) {
				if _, err := analyse(cap); err == nil {
					ts = cap
					break
				}
			}
		}
	default:
		panic("c18: unknown part kind " + p.Kind)
	}
	if len(ts) == 0 {
		return nil
	}
	// jitter
	if p.Jitter > 0 {
		amp := p.Jitter * minEdge(ts)
		for i := range ts {
			for k := 0; k < 3; k++ {
				v := ts[i][k]
				ts[i][k] = v.Add(kit.V3{hash01(p.Seed, v, 1) - 0.5, hash01(p.Seed, v, 2) - 0.5, hash01(p.Seed, v, 3) - 0.5}.Scale(2 * amp))
			}
		}
	}
	// thinning
	if p.Drop > 0 || len(p.Holes) > 0 {
		lo, hi := bbox(ts)
		diag := hi.Dist(lo)
		var kept []kit.Tri
		for _, t := range ts {
			c := centroid(t)
			rm := p.Drop > 0 && hash01(p.Seed, c, 11) < p.Drop
			for _, h := range p.Holes {
				hc := kit.V3{lo[0] + h[0]*(hi[0]-lo[0]), lo[1] + h[1]*(hi[1]-lo[1]), lo[2] + h[2]*(hi[2]-lo[2])}
				if c.Dist(hc) < h[3]*diag {
					rm = true
				}
			}
			if !rm {
				kept = append(kept, t)
			}
		}
		ts = kept
	}
	if p.Place != nil {
		for i := range ts {
			for k := 0; k < 3; k++ {
				ts[i][k] = p.Place.RefApply(ts[i][k])
			}
		}
		if p.Place.Det() < 0 {
			// keep the orientation consistent with outward normals (not required by the
			// functions under test, which only need consistency, but keeps volumes positive)
			for i := range ts {
				ts[i][1], ts[i][2] = ts[i][2], ts[i][1]
			}
		}
	}
	return ts
}

// build returns the triangles of the whole mesh (parts side by side along x) and the
// part index of every triangle.
func (s meshSpec) build() (ts []kit.Tri, partOf []int) {
	x := 0.0
	for pi, p := range s.Parts {
		pt := buildPart(p, s.MaxFaces)
		if len(pt) == 0 {
			continue
		}
		lo, hi := bbox(pt)
		gap := 0.37 * (hi.Dist(lo) + 1)
		shift := kit.V3{x - lo[0], 0.013 * float64(pi), -0.029 * float64(pi)}
		if pi == 0 {
			shift = kit.V3{}
			x = lo[0]
		}
		for i := range pt {
			for k := 0; k < 3; k++ {
				pt[i][k] = pt[i][k].Add(shift)
			}
		}
		x += (hi[0] - lo[0]) + gap
		for range pt {
			partOf = append(partOf, pi)
		}
		ts = append(ts, pt...)
	}
	return
}

// libMesh builds the library mesh and the list of face pointers (index-aligned with ts).
func libMesh(ts []kit.Tri) (*model3d.Mesh, []*model3d.Triangle) {
	m := model3d.NewMesh()
	faces := make([]*model3d.Triangle, len(ts))
	for i, t := range ts {
		f := &model3d.Triangle{m3.C3(t[0]), m3.C3(t[1]), m3.C3(t[2])}
		faces[i] = f
		m.Add(f)
	}
	return m, faces
}

// ---------------------------------------------------------------------------
// generators (uniform draws through gen.Int / gen.F: rapid's own numeric generators prefer tiny values)

func pick[T any](t *rapid.T, xs []T, label string) T { return xs[gen.Int(t, 0, len(xs)-1, label)] }

func placeGen(t *rapid.T, label string) *gen.Xform3 {
	switch gen.Int(t, 0, 3, label+".kind") {
	case 0:
		return nil
	case 1:
		// rigid motion and uniform scale
		return &gen.Xform3{Kind: "joined", Parts: []gen.Xform3{
			{Kind: "rotation", V: gen.Dir3(t, label+".axis").Unit(), S: gen.F(t, -3.1, 3.1, label+".angle")},
			{Kind: "scale", S: gen.LogF(t, 0.05, 20, label+".scale")},
			{Kind: "translate", V: gen.Vec3(t, 2, label+".off")},
		}}
	default:
		x := gen.Xform3Gen(t, false, label)
		return &x
	}
}

func partGen(t *rapid.T, kinds []string, maxFaces int, label string) part {
	kind := pick(t, kinds, label+".kind")
	p := part{Kind: kind, Seed: rapid.Uint64().Draw(t, label+".seed")}
	isqrt := func(x int) int { return int(math.Sqrt(float64(x))) }
	switch kind {
	case "ico":
		p.N = []int{gen.Int(t, 1, isqrt(maxFaces/20), label+".n")}
	case "torus":
		a := gen.Int(t, 3, 14, label+".inner")
		hi := maxFaces / (2 * a)
		if hi > 40 {
			hi = 40
		}
		if hi < 3 {
			hi = 3
		}
		p.N = []int{a, gen.Int(t, 3, hi, label+".outer")}
		p.P = []float64{gen.F(t, 0.1, 0.9, label+".r")}
	case "box":
		m := isqrt(maxFaces / 12)
		if m < 1 {
			m = 1
		}
		if m > 8 {
			m = 8
		}
		p.N = []int{gen.Int(t, 1, m, label+".nx"), gen.Int(t, 1, m, label+".ny"), gen.Int(t, 1, m, label+".nz")}
	case "tori":
		k := gen.Int(t, 1, 2, label+".k")
		r := gen.F(t, 0.3, 0.5, label+".r")
		// spacing aimed at maxFaces*0.7 triangles: area ~ 4 pi^2 r per torus, about 2.2 triangles per delta^2
		area := 4 * math.Pi * math.Pi * r * float64(k)
		delta := math.Sqrt(2.2 * area / (0.7 * float64(maxFaces)))
		p.N = []int{k}
		p.P = []float64{r, gen.F(t, 1.3, 1.8, label+".sep"), delta * gen.F(t, 1, 1.6, label+".coarse")}
	case "csg":
		p.Tree = gen.NodeGen(t, 3, 3, false, label+".tree")
		p.P = []float64{gen.F(t, 0.12, 0.4, label+".delta")}
	case "height":
		m := isqrt(maxFaces / 2)
		if m > 24 {
			m = 24
		}
		p.N = []int{gen.Int(t, 1, m, label+".nx"), gen.Int(t, 1, m, label+".ny")}
		p.P = []float64{gen.F(t, 0, 3, label+".amp"), gen.F(t, 0.2, 1.5, label+".a"), gen.F(t, 0.2, 1.5, label+".b"), gen.F(t, 0, 6, label+".phase")}
		if gen.Int(t, 0, 5, label+".flat") == 0 {
			p.P[0] = 0 // flat, symmetric patch
		}
		if gen.Int(t, 0, 3, label+".xyjit?") == 0 {
			p.XYJit = gen.F(t, 0.02, 0.15, label+".xyjit")
		}
	case "fan":
		p.N = []int{pick(t, []int{3, 4, 4, 5, 6, 7, 8, 9, 12}, label+".k")}
		p.P = []float64{gen.F(t, 0, 2, label+".h")}
		if gen.Int(t, 0, 3, label+".flat") == 0 {
			p.P[0] = 0
		}
	case "cap":
		d := gen.Dir3(t, label+".dir").Add(kit.V3{0.0113, -0.0057, 0.0031})
		p.N = []int{gen.Int(t, 1, isqrt(maxFaces/20), label+".n")}
		p.P = []float64{d[0], d[1], d[2], gen.F(t, -0.6, 0.95, label+".c")}
	}
	if gen.Int(t, 0, 1, label+".jit") == 1 {
		p.Jitter = gen.F(t, 0.01, 0.3, label+".jitter")
	}
	p.Place = placeGen(t, label+".place")
	return p
}

var closedKinds = []string{"ico", "torus", "box", "tori", "tori", "csg"}
var discKinds = []string{"height", "height", "height", "cap", "cap", "cap", "fan"}

func tierMaxFaces() int {
	if kit.Tier() == "thorough" {
		return 5000
	}
	return 600
}

// maxFacesGen draws the face budget of a case (small most of the time).
func maxFacesGen(t *rapid.T) int {
	hi := tierMaxFaces()
	return pick(t, []int{60, 150, 300, 600, 600, 600, hi}, "maxfaces")
}

// meshGen draws a mesh: closed surfaces, open discs, optional thinning and several components.
func meshGen(t *rapid.T, allowThin bool) meshSpec {
	s := meshSpec{MaxFaces: maxFacesGen(t)}
	n := 1
	if gen.Int(t, 0, 3, "multi") == 0 {
		n = gen.Int(t, 2, 3, "nparts")
	}
	for i := 0; i < n; i++ {
		kinds := append(append([]string{}, closedKinds...), discKinds...)
		p := partGen(t, kinds, s.MaxFaces/n, "part")
		if allowThin && gen.Int(t, 0, 3, "thin") == 0 {
			if gen.Int(t, 0, 1, "thin.holes") == 1 {
				k := gen.Int(t, 1, 3, "thin.nholes")
				for j := 0; j < k; j++ {
					p.Holes = append(p.Holes, [4]float64{gen.F(t, 0, 1, "hx"), gen.F(t, 0, 1, "hy"), gen.F(t, 0, 1, "hz"), gen.F(t, 0.05, 0.3, "hr")})
				}
			} else {
				p.Drop = gen.F(t, 0.02, 0.5, "thin.drop")
			}
		}
		s.Parts = append(s.Parts, p)
	}
	return s
}
