package c18

import (
	"bytes"
	"fmt"
	"log"
	"math"
	"os"
	"regexp"
	"runtime"
	"sort"
	"strconv"
	"testing"
	"time"

	"github.com/unixpickle/model3d/model2d"
	"github.com/unixpickle/model3d/model3d"
	"pgregory.net/rapid"
	"verifharness/gen"
	"verifharness/kit"
	"verifharness/m3"
)

const rule = "meshes: icospheres, tori, subdivided boxes, marching cubes of 1-2 overlapping tori and of random CSG trees (genus 0-2+), height-field patches (also flat, with in-plane jitter), spherical caps and triangle fans (open discs), 1-3 components side by side, hash-jittered vertices, random affine placement, optionally thinned to a subset of the faces; <= 600 faces in the quick tier (5000 thorough). Charts: MeshToPlaneGraphs / Limited with random size and area limits, SplitPlaneGraph with the distance heuristic or a linear decision function. Floater: every disc x {Circle, PNorm(p), Square, harness-made affine images of a circle, the disc's own x,y for flat/planar-boundary fans and grid patches} x {uniform, inverse chord length^r, shape preserving, harness-made random positive weights}, optionally through StretchMinimizingParameterization. Atlas: BuildAutomaticUVMap at 64..1024 and PackMeshUVMaps of per-chart Floater maps into a random rectangle with a border; MapFn queries are barycentric points of random faces (interior, near and on edges, vertices, just outside chart boundary edges). Non-trivial: >= 2 charts (charts, atlas, mapfn), >= 2 faces (split), >= 1 interior vertex (floater). Distinct: hash of the JSON case."

// ---------------------------------------------------------------------------
// shared plumbing

type built struct {
	ts     []kit.Tri
	partOf []int
	m      *model3d.Mesh
	faces  []*model3d.Triangle
	idx    map[*model3d.Triangle]int
}

func wrap(ts []kit.Tri) *built {
	b := &built{ts: ts, idx: map[*model3d.Triangle]int{}}
	b.m, b.faces = libMesh(ts)
	for i, f := range b.faces {
		b.idx[f] = i
	}
	return b
}

func (b *built) sub(ix []int) []kit.Tri {
	out := make([]kit.Tri, len(ix))
	for i, k := range ix {
		out[i] = b.ts[k]
	}
	return out
}

func (b *built) subMesh(ix []int) *model3d.Mesh {
	m := model3d.NewMesh()
	for _, k := range ix {
		m.Add(b.faces[k])
	}
	return m
}

// unchanged verifies that the library did not modify the caller's mesh or triangles.
func (b *built) unchanged() error {
	if n := b.m.NumTriangles(); n != len(b.faces) {
		return fmt.Errorf("the input mesh was modified: it had %d faces and now has %d", len(b.faces), n)
	}
	for i, f := range b.faces {
		if m3.Tri(f) != b.ts[i] {
			return fmt.Errorf("input face %d was modified in place: %v -> %v", i, b.ts[i], m3.Tri(f))
		}
	}
	return nil
}

// partition checks that the charts contain every input face pointer exactly once and
// nothing else; it returns the (sorted) face indices of every chart.
func (b *built) partition(charts []*model3d.Mesh) ([][]int, error) {
	seen := make([]int, len(b.faces))
	for i := range seen {
		seen[i] = -1
	}
	var out [][]int
	total := 0
	for ci, ch := range charts {
		if ch == nil {
			return nil, fmt.Errorf("chart %d is nil", ci)
		}
		var ix []int
		var err error
		ch.Iterate(func(t *model3d.Triangle) {
			k, ok := b.idx[t]
			if !ok {
				if err == nil {
					err = fmt.Errorf("chart %d contains a face %v that is not a face (pointer) of the input mesh", ci, *t)
				}
				return
			}
			if seen[k] >= 0 && err == nil {
				err = fmt.Errorf("input face %d %v is in chart %d and in chart %d", k, b.ts[k], seen[k], ci)
			}
			seen[k] = ci
			ix = append(ix, k)
		})
		if err != nil {
			return nil, err
		}
		sort.Ints(ix)
		total += len(ix)
		out = append(out, ix)
	}
	for k, c := range seen {
		if c < 0 {
			return nil, fmt.Errorf("input face %d %v is in no chart (%d charts hold %d of %d faces)", k, b.ts[k], len(charts), total, len(b.faces))
		}
	}
	return out, nil
}

func bucket(n int) string {
	switch {
	case n <= 1:
		return fmt.Sprint(n)
	case n <= 3:
		return "2-3"
	case n <= 8:
		return "4-8"
	case n <= 20:
		return "9-20"
	}
	return ">20"
}

func labelMesh(o *kit.Obs, s meshSpec, ts []kit.Tri) {
	kinds := map[string]bool{}
	thinned, jittered, placed := false, false, false
	for _, p := range s.Parts {
		kinds[p.Kind] = true
		thinned = thinned || p.Drop > 0 || len(p.Holes) > 0
		jittered = jittered || p.Jitter > 0
		placed = placed || p.Place != nil
	}
	if thinned {
		o.Label("thinned")
	}
	if jittered {
		o.Label("jittered")
	}
	if placed {
		o.Label("placed")
	}
	for _, k := range []string{"ico", "torus", "box", "tori", "csg", "height", "cap", "fan"} {
		if kinds[k] {
			o.Label("kind:" + k)
		}
	}
	if len(s.Parts) > 1 {
		o.Label("multi-part")
	}
	if in, err := index(ts); err == nil {
		closed := true
		for e := range in.dir {
			if _, ok := in.dir[[2]int{e[1], e[0]}]; !ok {
				closed = false
				break
			}
		}
		if closed {
			comps := in.edgeComponents()
			g := (2*comps - in.euler()) / 2
			if g > 3 {
				g = 3
			}
			o.Labelf("closed:genus-sum-%d", g)
		} else {
			o.Label("open")
		}
	}
	o.Label("faces:" + bucket(len(ts)/25))
}

// Known-finding input classes (see /verif/replays/C18/kf-*.json).
const (
	// the default BiCGSTAB solver divides 0/0 when the starting residual of a coordinate is exactly zero
	// (symmetric discs, or a stretch iteration that leaves the solution unchanged) and panics
	tagSolver = "bicgstab-breakdown"
	// StretchMinimizingParameterization with weights that have entries centred at boundary vertices
	// (uniform, inverse chord length) on a disc with a vertex all of whose faces have three boundary vertices
	tagStretch = "stretch-boundary-centres"
	// Floater97ShapePreservingWeights clamps the cosine of a wedge angle to [0, 1]: angles above 90 degrees count as 90
	tagObtuse = "shape-weights-obtuse-wedge"
	// BuildAutomaticUVMap packs charts into a quad tree balanced by area, not by count; with charts of very
	// different areas a cell becomes smaller than twice the border (1/resolution) and ToBounds panics
	tagCells = "atlas-cell-smaller-than-border"
)

// guarded runs f and reports whether the library's linear solver gave up with its NaN panic.
func guarded(f func()) (nan bool) {
	defer func() {
		if p := recover(); p != nil {
			if s, ok := p.(string); ok && s == "NaN detected during solving" {
				nan = true
				return
			}
			panic(p)
		}
	}()
	f()
	return false
}

// solverVerdict: the harness has verified that boundary positions and weights are finite and
// admissible before the call, so a NaN can only be a breakdown inside the solver.
func solverVerdict(o *kit.Obs, what string) error {
	if kit.Excluded(tagSolver) {
		kit.CountExcluded(tagSolver)
		o.Label("excluded:" + tagSolver)
		return nil
	}
	return fmt.Errorf("%s: the default solver panicked with \"NaN detected during solving\" on a finite, admissible system (BiCGSTAB breakdown: a right-hand side or starting residual that is exactly zero)", what)
}

// ---------------------------------------------------------------------------
// clause 1: MeshToPlaneGraphs / MeshToPlaneGraphsLimited

type chartCase struct {
	Mesh        meshSpec `json:"mesh"`
	API         string   `json:"api"` // plain | limited
	MaxSize     int      `json:"max_size,omitempty"`
	MaxAreaFrac float64  `json:"max_area_frac,omitempty"` // of the total area; 0: no limit
	Again       int      `json:"again"`                   // which chart is decomposed again (idempotence)
}

func genChart(t *rapid.T) chartCase {
	c := chartCase{Mesh: meshGen(t, true), API: pick(t, []string{"plain", "limited"}, "api"), Again: gen.Int(t, 0, 50, "again")}
	if c.API == "limited" {
		switch gen.Int(t, 0, 2, "limit") {
		case 0:
			c.MaxSize = gen.Int(t, 1, 80, "maxsize")
		case 1:
			c.MaxAreaFrac = gen.LogF(t, 0.002, 0.6, "maxarea")
		default:
			c.MaxSize = gen.Int(t, 1, 80, "maxsize")
			c.MaxAreaFrac = gen.LogF(t, 0.002, 0.6, "maxarea")
		}
	}
	return c
}

func checkDiscs(b *built, parts [][]int, what string, maxSize int, maxArea float64) error {
	for ci, ix := range parts {
		ts := b.sub(ix)
		if _, err := analyse(ts); err != nil {
			return fmt.Errorf("%s: chart %d of %d (%d faces) is not a disc: %w", what, ci, len(parts), len(ix), err)
		}
		if maxSize > 0 && len(ix) > maxSize {
			return fmt.Errorf("%s: chart %d has %d faces, limit %d", what, ci, len(ix), maxSize)
		}
		// the documented soft limit: only a chart consisting of its first triangle may exceed it.
		// 1e-9 relative: the library accumulates the areas in flood order, the harness in index order.
		if a := sumArea(ts); maxArea > 0 && len(ix) > 1 && a > maxArea*(1+1e-9) {
			return fmt.Errorf("%s: chart %d (%d faces) has area %.12g, limit %.12g", what, ci, len(ix), a, maxArea)
		}
	}
	return nil
}

func checkChart(c chartCase, o *kit.Obs) error {
	ts, _ := c.Mesh.build()
	labelMesh(o, c.Mesh, ts)
	if _, err := index(ts); err != nil {
		// cannot happen for the generated families (marching cubes is manifold by C01); counted, not judged
		o.Skip("input-not-an-oriented-manifold-subset")
		return nil
	}
	b := wrap(ts)
	maxArea := c.MaxAreaFrac * sumArea(ts)
	var charts []*model3d.Mesh
	if c.API == "plain" {
		charts = model3d.MeshToPlaneGraphs(b.m)
	} else {
		charts = model3d.MeshToPlaneGraphsLimited(b.m, c.MaxSize, maxArea)
		o.Label("api:limited")
	}
	if err := b.unchanged(); err != nil {
		return err
	}
	parts, err := b.partition(charts)
	if err != nil {
		return err
	}
	if len(ts) == 0 {
		o.Label("empty-mesh")
		return nil
	}
	if err := checkDiscs(b, parts, c.API, c.MaxSize, maxArea); err != nil {
		return err
	}
	o.Label("charts:" + bucket(len(parts)))
	if len(parts) >= 2 {
		o.NonTrivial()
	}
	// documented: decomposing a result again is the identity
	for k := 0; k < 2 && k < len(parts); k++ {
		ix := parts[(c.Again+k)%len(parts)]
		sb := wrap(b.sub(ix))
		again := model3d.MeshToPlaneGraphs(sb.m)
		p2, err := sb.partition(again)
		if err != nil {
			return fmt.Errorf("decomposing a chart again: %w", err)
		}
		if len(p2) != 1 {
			return fmt.Errorf("decomposing chart %d (a disc of %d faces) again gives %d charts; documented to be the identity", (c.Again+k)%len(parts), len(ix), len(p2))
		}
	}
	return nil
}

// ---------------------------------------------------------------------------
// discs for the Floater / split clauses: either an open disc built by the harness
// ("self") or one chart of the library's decomposition ("chart").

type discSpec struct {
	Mesh    meshSpec `json:"mesh"`
	Source  string   `json:"source"` // self | chart
	MaxSize int      `json:"max_size,omitempty"`
	Chart   int      `json:"chart,omitempty"`
}

func discGen(t *rapid.T) discSpec {
	d := discSpec{Source: pick(t, []string{"self", "chart", "chart"}, "source")}
	if d.Source == "self" {
		d.Mesh = meshSpec{MaxFaces: maxFacesGen(t)}
		d.Mesh.Parts = []part{partGen(t, discKinds, d.Mesh.MaxFaces, "disc")}
		return d
	}
	d.Mesh = meshGen(t, gen.Int(t, 0, 4, "thin?") == 0)
	if gen.Int(t, 0, 1, "limit") == 1 {
		d.MaxSize = gen.Int(t, 4, 200, "maxsize")
	}
	d.Chart = gen.Int(t, 0, 30, "chart")
	return d
}

// get returns the disc's triangles; ok=false (with a skip recorded) when there is none.
func (d discSpec) get(o *kit.Obs) ([]kit.Tri, bool) {
	ts, _ := d.Mesh.build()
	labelMesh(o, d.Mesh, ts)
	o.Label("source:" + d.Source)
	if len(ts) == 0 {
		o.Skip("empty-mesh")
		return nil, false
	}
	if d.Source == "self" {
		if _, err := analyse(ts); err != nil {
			o.Skip("generated-disc-is-not-a-disc")
			return nil, false
		}
		return ts, true
	}
	if _, err := index(ts); err != nil {
		o.Skip("input-not-an-oriented-manifold-subset")
		return nil, false
	}
	b := wrap(ts)
	parts, err := b.partition(model3d.MeshToPlaneGraphsLimited(b.m, d.MaxSize, 0))
	if err != nil || len(parts) == 0 {
		o.Skip("decomposition-invalid (judged by the charts clause)")
		return nil, false
	}
	// prefer a chart with an interior vertex: start at the drawn index and take the first that has one
	best := parts[d.Chart%len(parts)]
	for k := 0; k < len(parts); k++ {
		ix := parts[(d.Chart+k)%len(parts)]
		if s, err := analyse(b.sub(ix)); err == nil && len(s.verts) > len(s.loop) {
			best = ix
			break
		}
	}
	out := b.sub(best)
	if _, err := analyse(out); err != nil {
		o.Skip("decomposition-invalid (judged by the charts clause)")
		return nil, false
	}
	return out, true
}

// ---------------------------------------------------------------------------
// clause 2: SplitPlaneGraph

type splitCase struct {
	Disc     discSpec  `json:"disc"`
	Decision []float64 `json:"decision,omitempty"` // nil: distance heuristic; else direction xyz + noise amplitude
	Seed     uint64    `json:"seed,omitempty"`
}

func genSplit(t *rapid.T) splitCase {
	c := splitCase{Disc: discGen(t)}
	if gen.Int(t, 0, 1, "decision") == 1 {
		d := gen.Dir3(t, "dir")
		c.Decision = []float64{d[0], d[1], d[2], gen.F(t, 0, 1, "noise")}
		c.Seed = rapid.Uint64().Draw(t, "seed")
	}
	return c
}

func checkSplit(c splitCase, o *kit.Obs) error {
	ts, ok := c.Disc.get(o)
	if !ok {
		return nil
	}
	b := wrap(ts)
	var dec func(t *model3d.Triangle) float64
	if c.Decision != nil {
		o.Label("decision:linear")
		lo, hi := bbox(ts)
		diag := hi.Dist(lo)
		dec = func(t *model3d.Triangle) float64 {
			ct := centroid(m3.Tri(t))
			return ct.Dot(kit.V3{c.Decision[0], c.Decision[1], c.Decision[2]}) + c.Decision[3]*diag*hash01(c.Seed, ct, 5)
		}
	} else {
		o.Label("decision:distance")
	}
	pieces := model3d.SplitPlaneGraph(b.m, dec)
	if err := b.unchanged(); err != nil {
		return err
	}
	parts, err := b.partition(pieces)
	if err != nil {
		return err
	}
	// every piece is grown until half the area: only a single-triangle piece may exceed it
	if err := checkDiscs(b, parts, "split", 0, sumArea(ts)/2); err != nil {
		return err
	}
	o.Label("pieces:" + bucket(len(parts)))
	if len(ts) >= 2 {
		o.NonTrivial()
		if len(parts) < 2 {
			return fmt.Errorf("a disc of %d faces was split into %d piece(s); documented: at least two unless the mesh is minimal", len(ts), len(parts))
		}
	} else if len(parts) != 1 {
		return fmt.Errorf("a single triangle was split into %d pieces", len(parts))
	}
	return nil
}

// ---------------------------------------------------------------------------
// clause 3: boundary maps, weights and Floater97

type floaterCase struct {
	Disc     discSpec   `json:"disc"`
	Boundary string     `json:"boundary"` // circle | pnorm | square | custom (affine image of a circle) | planar (affine image of the disc's own x,y: fans and height patches only)
	PNorm    float64    `json:"pnorm,omitempty"`
	Affine   [6]float64 `json:"affine,omitempty"` // custom: x' = a0 x + a1 y + a4, y' = a2 x + a3 y + a5
	BSeed    uint64     `json:"bseed,omitempty"`
	Weights  string     `json:"weights"` // uniform | invchord | shape | custom
	R        float64    `json:"r,omitempty"`
	WSeed    uint64     `json:"wseed,omitempty"`
	WSpread  float64    `json:"wspread,omitempty"` // custom weights are exp(spread * u), u in [-1/2, 1/2)
	WBd      bool       `json:"wbd,omitempty"`     // custom weights also have (unused) entries centred at boundary vertices
	Stretch  int        `json:"stretch,omitempty"` // > 0: StretchMinimizingParameterization with that many iterations
	Eta      float64    `json:"eta,omitempty"`
}

func genFloater(t *rapid.T) floaterCase {
	var c floaterCase
	c.Boundary = pick(t, []string{"circle", "circle", "pnorm", "pnorm", "square", "square", "custom", "custom", "planar"}, "boundary")
	if c.Boundary == "planar" {
		// needs a disc whose own x,y boundary is convex: an unjittered, unplaced fan or height patch
		c.Disc = discSpec{Source: "self", Mesh: meshSpec{MaxFaces: maxFacesGen(t)}}
		p := partGen(t, []string{"fan", "height"}, c.Disc.Mesh.MaxFaces, "disc")
		p.Jitter, p.Place = 0, nil
		if gen.Int(t, 0, 1, "flat") == 1 {
			p.P[0] = 0
		}
		c.Disc.Mesh.Parts = []part{p}
	} else {
		c.Disc = discGen(t)
	}
	switch c.Boundary {
	case "pnorm":
		c.PNorm = gen.LogF(t, 1.3, 8, "p")
	case "planar":
		c.Affine = [6]float64{1, 0, 0, 1, 0, 0}
		if gen.Int(t, 0, 1, "generic") == 1 {
			a, sx, sy := gen.F(t, -3.2, 3.2, "angle"), gen.LogF(t, 0.2, 5, "sx"), gen.LogF(t, 0.2, 5, "sy")
			cs, sn := math.Cos(a), math.Sin(a)
			c.Affine = [6]float64{cs * sx, -sn * sy, sn * sx, cs * sy, gen.F(t, -3, 3, "ox"), gen.F(t, -3, 3, "oy")}
		}
	case "custom":
		// rotation * diag * (optional reflection): condition number <= 5
		a, sx, sy := gen.F(t, -3.2, 3.2, "angle"), gen.LogF(t, 0.2, 5, "sx"), gen.LogF(t, 1, 5, "aspect")
		sy *= sx
		if gen.Int(t, 0, 1, "reflect") == 1 {
			sy = -sy
		}
		cs, sn := math.Cos(a), math.Sin(a)
		c.Affine = [6]float64{cs * sx, -sn * sy, sn * sx, cs * sy, gen.F(t, -3, 3, "ox"), gen.F(t, -3, 3, "oy")}
		c.BSeed = rapid.Uint64().Draw(t, "bseed")
	}
	c.Weights = pick(t, []string{"uniform", "invchord", "shape", "custom"}, "weights")
	switch c.Weights {
	case "invchord":
		c.R = gen.F(t, 0.25, 2.5, "r")
	case "custom":
		c.WSeed = rapid.Uint64().Draw(t, "wseed")
		c.WSpread = gen.F(t, 0, 6, "wspread")
		c.WBd = (gen.Int(t, 0, 1, "wbd") == 1)
	}
	if gen.Int(t, 0, 4, "stretch?") == 0 {
		c.Stretch = gen.Int(t, 1, 6, "stretch")
		c.Eta = gen.F(t, 0.2, 1, "eta")
		if c.Boundary == "square" {
			// the square boundary is documented to flatten triangles onto its sides (an interior vertex whose
			// neighbours all lie on one side lands on it as well); the stretch of a flattened triangle is
			// undefined, so stretch minimisation is only exercised over strictly convex curves
			c.Boundary = "circle"
		}
	}
	return c
}

func uvOf(m *model3d.CoordMap[model2d.Coord], v kit.V3) (kit.V2, bool) {
	c, ok := m.Load(m3.C3(v))
	return m3.V2(c), ok
}

// checkLibBoundary verifies a library boundary map against the documented construction:
// exactly the boundary vertices, each on the unit curve, angular increments proportional
// to the 3D lengths of the boundary segments (either direction).
func checkLibBoundary(c floaterCase, s *surf, bm *model3d.CoordMap[model2d.Coord]) error {
	if bm.Len() != len(s.loop) {
		return fmt.Errorf("%s boundary map has %d entries for %d boundary vertices", c.Boundary, bm.Len(), len(s.loop))
	}
	n := len(s.loop)
	total := 0.0
	lens := make([]float64, n)
	for i := range s.loop {
		lens[i] = s.verts[s.loop[i]].Dist(s.verts[s.loop[(i+1)%n]])
		total += lens[i]
	}
	angs := make([]float64, n)
	for i, vi := range s.loop {
		p, ok := uvOf(bm, s.verts[vi])
		if !ok {
			return fmt.Errorf("%s boundary map has no entry for boundary vertex %v", c.Boundary, s.verts[vi])
		}
		var r float64
		switch c.Boundary {
		case "circle":
			r = p.Norm()
		case "pnorm":
			r = math.Pow(math.Pow(math.Abs(p[0]), c.PNorm)+math.Pow(math.Abs(p[1]), c.PNorm), 1/c.PNorm)
		case "square":
			r = math.Max(math.Abs(p[0]), math.Abs(p[1]))
		}
		// closed forms evaluated in doubles: 1e-12 covers pow/cos/sin rounding
		if !(math.Abs(r-1) <= 1e-12) {
			return fmt.Errorf("%s boundary: vertex %v is mapped to %v, which has norm %.15g on the target curve (want 1)", c.Boundary, s.verts[vi], p, r)
		}
		angs[i] = math.Atan2(p[1], p[0])
	}
	// the direction of travel is not documented: all increments +2 pi len/total or all -2 pi len/total.
	// Compared modulo 2 pi, 1e-9 absolute on angles of size <= 2 pi (atan2 of unit-size points).
	var badPlus, badMinus error
	for i := 0; i < n; i++ {
		want := 2 * math.Pi * lens[i] / total
		got := angs[(i+1)%n] - angs[i]
		msg := func() error {
			return fmt.Errorf("%s boundary: segment %d of %d (%v -> %v, %.6g of the length %.6g) spans the angle %.12g, want +-%.12g (arc length parameterisation)", c.Boundary, i, n, s.verts[s.loop[i]], s.verts[s.loop[(i+1)%n]], lens[i], total, got, want)
		}
		if badPlus == nil && !(math.Abs(math.Remainder(got-want, 2*math.Pi)) <= 1e-9) {
			badPlus = msg()
		}
		if badMinus == nil && !(math.Abs(math.Remainder(got+want, 2*math.Pi)) <= 1e-9) {
			badMinus = msg()
		}
	}
	if badPlus != nil && badMinus != nil {
		return badPlus
	}
	return nil
}

// planarOK: the disc's boundary, projected to the x,y plane, is a convex polygon by
// construction (regular polygon of a fan, rectangle of a height patch; no jitter, no placement).
func planarOK(d discSpec) bool {
	if d.Source != "self" || len(d.Mesh.Parts) != 1 {
		return false
	}
	p := d.Mesh.Parts[0]
	return (p.Kind == "fan" || p.Kind == "height") && p.Jitter == 0 && p.Place == nil
}

// planarDisc: the whole disc lies in the plane z = 0.
func planarDisc(d discSpec) bool {
	return planarOK(d) && d.Mesh.Parts[0].P[0] == 0
}

func planarBoundary(c floaterCase, s *surf) *model3d.CoordMap[model2d.Coord] {
	bm := model3d.NewCoordMap[model2d.Coord]()
	for _, vi := range s.loop {
		x, y := s.verts[vi][0], s.verts[vi][1]
		bm.Store(m3.C3(s.verts[vi]), model2d.XY(c.Affine[0]*x+c.Affine[1]*y+c.Affine[4], c.Affine[2]*x+c.Affine[3]*y+c.Affine[5]))
	}
	return bm
}

func customBoundary(c floaterCase, s *surf) *model3d.CoordMap[model2d.Coord] {
	bm := model3d.NewCoordMap[model2d.Coord]()
	n := len(s.loop)
	inc := make([]float64, n)
	tot := 0.0
	for i, vi := range s.loop {
		inc[i] = 0.15 + hash01(c.BSeed, s.verts[vi], 21)
		tot += inc[i]
	}
	th := 0.0
	for i, vi := range s.loop {
		x, y := math.Cos(th), math.Sin(th)
		bm.Store(m3.C3(s.verts[vi]), model2d.XY(c.Affine[0]*x+c.Affine[1]*y+c.Affine[4], c.Affine[2]*x+c.Affine[3]*y+c.Affine[5]))
		th += 2 * math.Pi * inc[i] / tot
	}
	return bm
}

func edgeKey(a, b kit.V3) [2]model3d.Coord3D { return [2]model3d.Coord3D{m3.C3(a), m3.C3(b)} }

// checkLibWeights verifies the library weightings against their closed forms (uniform,
// inverse chord length) or against admissibility (shape preserving).
func checkLibWeights(c floaterCase, s *surf, w *model3d.EdgeMap[float64]) error {
	for vi, nb := range s.nbrs {
		if c.Weights == "shape" && s.onBd[vi] {
			continue
		}
		var ref []float64
		tot := 0.0
		for _, ni := range nb {
			r := 1.0
			if c.Weights == "invchord" {
				r = math.Pow(s.verts[vi].Dist(s.verts[ni]), -c.R)
			}
			ref = append(ref, r)
			tot += r
		}
		sum := 0.0
		for k, ni := range nb {
			got, ok := w.Load(edgeKey(s.verts[vi], s.verts[ni]))
			if !ok {
				return fmt.Errorf("%s weights: no weight for centre %v -> neighbour %v", c.Weights, s.verts[vi], s.verts[ni])
			}
			sum += got
			if c.Weights == "shape" {
				if !(got >= 0) {
					return fmt.Errorf("shape preserving weight %v -> %v is %g (not admissible)", s.verts[vi], s.verts[ni], got)
				}
				continue
			}
			// closed form; 1e-12 relative covers pow and the normalisation
			if want := ref[k] / tot; !(math.Abs(got-want) <= 1e-12*want) {
				return fmt.Errorf("%s weight %v -> %v is %.17g, closed form %.17g", c.Weights, s.verts[vi], s.verts[ni], got, want)
			}
		}
		if !(math.Abs(sum-1) <= 1e-9) {
			return fmt.Errorf("%s weights of centre %v sum to %.15g", c.Weights, s.verts[vi], sum)
		}
	}
	return nil
}

func customWeights(c floaterCase, s *surf) *model3d.EdgeMap[float64] {
	w := model3d.NewEdgeMap[float64]()
	for vi, nb := range s.nbrs {
		if s.onBd[vi] && !c.WBd {
			continue
		}
		raw := make([]float64, len(nb))
		tot := 0.0
		for k, ni := range nb {
			raw[k] = math.Exp(c.WSpread * (hash01(c.WSeed, s.verts[vi].Add(s.verts[ni].Scale(0.37)), 31) - 0.5))
			tot += raw[k]
		}
		for k, ni := range nb {
			w.Store(edgeKey(s.verts[vi], s.verts[ni]), raw[k]/tot)
		}
	}
	return w
}

func checkFloater(c floaterCase, o *kit.Obs) error {
	ts, ok := c.Disc.get(o)
	if !ok {
		return nil
	}
	s, err := analyse(ts)
	if err != nil {
		return fmt.Errorf("%w: %v", kit.ErrInfra, err)
	}
	b := wrap(ts)
	o.Label("boundary:" + c.Boundary)
	o.Label("weights:" + c.Weights)
	nInt := len(s.verts) - len(s.loop)
	o.Label("interior:" + bucket(nInt))
	if nInt >= 1 {
		o.NonTrivial()
	}

	// boundary map
	var bm *model3d.CoordMap[model2d.Coord]
	switch c.Boundary {
	case "circle":
		bm = model3d.CircleBoundary(b.m)
	case "pnorm":
		bm = model3d.PNormBoundary(b.m, c.PNorm)
	case "square":
		bm = model3d.SquareBoundary(b.m)
	case "custom":
		bm = customBoundary(c, s)
	case "planar":
		if !planarOK(c.Disc) {
			return fmt.Errorf("%w: planar boundary on a disc without a convex planar boundary", kit.ErrInfra)
		}
		bm = planarBoundary(c, s)
	}
	if c.Boundary != "custom" && c.Boundary != "planar" {
		if err := checkLibBoundary(c, s, bm); err != nil {
			return err
		}
	}
	prescribed := make([]kit.V2, len(s.verts))
	lo, hi := kit.V2{math.Inf(1), math.Inf(1)}, kit.V2{math.Inf(-1), math.Inf(-1)}
	for _, vi := range s.loop {
		p, _ := uvOf(bm, s.verts[vi])
		prescribed[vi] = p
		for k := 0; k < 2; k++ {
			lo[k], hi[k] = math.Min(lo[k], p[k]), math.Max(hi[k], p[k])
		}
	}
	scale := hi.Dist(lo)

	// weights
	var w *model3d.EdgeMap[float64]
	switch c.Weights {
	case "uniform":
		w = model3d.Floater97UniformWeights(b.m)
	case "invchord":
		w = model3d.Floater97InvChordLengthWeights(b.m, c.R)
	case "shape":
		w = model3d.Floater97ShapePreservingWeights(b.m)
	case "custom":
		w = customWeights(c, s)
	}
	if c.Weights != "custom" {
		if err := checkLibWeights(c, s, w); err != nil {
			return err
		}
	}

	var res *model3d.CoordMap[model2d.Coord]
	if c.Stretch > 0 {
		o.Label("stretch-minimizing")
		if c.Weights == "uniform" || c.Weights == "invchord" || (c.Weights == "custom" && c.WBd) {
			// is there a vertex all of whose faces have three boundary vertices?
			fed := make([]bool, len(s.verts))
			for _, f := range s.f {
				if !(s.onBd[f[0]] && s.onBd[f[1]] && s.onBd[f[2]]) {
					fed[f[0]], fed[f[1]], fed[f[2]] = true, true, true
				}
			}
			for _, ok := range fed {
				if !ok {
					o.Label("stretch:boundary-centred-weights+starved-vertex")
					if kit.Excluded(tagStretch) {
						kit.CountExcluded(tagStretch)
						return nil
					}
					break
				}
			}
		}
		previewSolver()
		if guarded(func() { res = model3d.StretchMinimizingParameterization(b.m, bm, w, nil, c.Stretch, c.Eta, false) }) {
			return solverVerdict(o, "StretchMinimizingParameterization")
		}
	} else if previewSolver(); guarded(func() { res = model3d.Floater97(b.m, bm, w, nil) }) {
		return solverVerdict(o, "Floater97")
	}
	if err := b.unchanged(); err != nil {
		return err
	}
	// the boundary map is an argument, not a result: the call must leave it as it was (a caller that parameterises
	// the same disc again, e.g. with other weights, passes it a second time)
	if res == bm {
		return fmt.Errorf("the parameterisation returned is the caller's boundary map itself")
	}
	if bm.Len() != len(s.loop) {
		return fmt.Errorf("the caller's boundary map had %d entries (the boundary vertices) before the call and has %d after it", len(s.loop), bm.Len())
	}
	for _, vi := range s.loop {
		if p, ok := uvOf(bm, s.verts[vi]); !ok || p != prescribed[vi] {
			return fmt.Errorf("the caller's boundary map was changed by the call: vertex %v had %v, now %v (present=%v)", s.verts[vi], prescribed[vi], p, ok)
		}
	}
	if res.Len() != len(s.verts) {
		return fmt.Errorf("the parameterisation has %d entries for %d vertices", res.Len(), len(s.verts))
	}
	uv := make([]kit.V2, len(s.verts))
	for vi, v := range s.verts {
		p, ok := uvOf(res, v)
		if !ok || !p.Finite() {
			return fmt.Errorf("vertex %v has no finite parameter value (%v, present=%v)", v, p, ok)
		}
		uv[vi] = p
	}
	// (a) boundary vertices stay where they were prescribed (they are copied: exact)
	for _, vi := range s.loop {
		if uv[vi] != prescribed[vi] {
			return fmt.Errorf("boundary vertex %v was prescribed %v but is at %v", s.verts[vi], prescribed[vi], uv[vi])
		}
	}
	// Conditioning.  The library solves (I - W) u = b to a residual of 1e-8 (root mean square); how far the
	// positions are from the exact solution depends on the weights: with neighbours weighted hundreds of times
	// more than others (inverse chord length to a high power on a jittered mesh) the converged solution is off by
	// up to 1e-3 of the boundary's size (measured: 1 replay in 5 of one such case, depending on the map iteration
	// order that fixes the order of the unknowns), enough to push a thin triangle across its base.  The position
	// clauses below are calibrated for weight ratios up to 50; beyond, only the structural clauses are judged.
	wratio := 1.0
	for vi, nb := range s.nbrs {
		if s.onBd[vi] {
			continue
		}
		lo, hi := math.Inf(1), 0.0
		for _, ni := range nb {
			if wt, ok := w.Load(edgeKey(s.verts[vi], s.verts[ni])); ok {
				lo, hi = math.Min(lo, wt), math.Max(hi, wt)
			}
		}
		if lo > 0 && hi/lo > wratio {
			wratio = hi / lo
		}
	}
	if wratio > 50 {
		o.Label("weights:ratio>50(position clauses not judged)")
		return nil
	}
	// (b) every interior vertex is the weighted mean of its neighbours.  The residual of the
	// library's linear system is exactly this difference and its solver stops at a mean square
	// of 1e-16, i.e. <= 1e-8 sqrt(n) per vertex; the design grants 1e-6 of the boundary's size.
	if c.Stretch == 0 {
		worst := 0.0
		for vi, nb := range s.nbrs {
			if s.onBd[vi] {
				continue
			}
			var mean kit.V2
			for _, ni := range nb {
				wt, ok := w.Load(edgeKey(s.verts[vi], s.verts[ni]))
				if !ok {
					return fmt.Errorf("%w: weight missing", kit.ErrInfra)
				}
				mean = mean.Add(uv[ni].Scale(wt))
			}
			if d := mean.Dist(uv[vi]); d > worst {
				worst = d
			}
			if d := mean.Dist(uv[vi]); !(d <= 1e-6*scale) {
				return fmt.Errorf("interior vertex %v is at %v but the weighted mean of its %d neighbours is %v (distance %.3g, tolerance %.3g; %s weights)", s.verts[vi], uv[vi], len(nb), mean, d, 1e-6*scale, c.Weights)
			}
		}
		if worst > 1e-7*scale {
			o.Label("residual>1e-7")
		}
	} else {
		// the weights were rewritten in place: they must stay admissible
		for vi, nb := range s.nbrs {
			if s.onBd[vi] {
				continue
			}
			sum := 0.0
			for _, ni := range nb {
				wt, _ := w.Load(edgeKey(s.verts[vi], s.verts[ni]))
				if !(wt >= 0) {
					return fmt.Errorf("stretch minimisation left the weight %v -> %v at %g", s.verts[vi], s.verts[ni], wt)
				}
				sum += wt
			}
			if !(math.Abs(sum-1) <= 1e-9) {
				return fmt.Errorf("stretch minimisation left the weights of %v summing to %.15g", s.verts[vi], sum)
			}
		}
	}
	// (b') shape-preserving weights reproduce a planar triangulation whose boundary is mapped affinely
	// (Floater 1997, section 6: the geodesic polar map of a flat vertex star is a rigid motion, so the
	// true positions satisfy every convex-combination equation and the system has a unique solution).
	// Tolerance: the solver stops at a residual norm of 1e-8 sqrt(n); the inverse of the system matrix
	// of an m x m grid has norm ~ 2 (m/pi)^2 <= 120 for m <= 24, so positions are off by < 1e-4 cells.
	if c.Boundary == "planar" && c.Weights == "shape" && c.Stretch == 0 && planarDisc(c.Disc) {
		obtuse := false
		for _, f := range s.f {
			for k := 0; k < 3; k++ {
				v, a, bb := s.verts[f[k]], s.verts[f[(k+1)%3]], s.verts[f[(k+2)%3]]
				if !s.onBd[f[k]] && a.Sub(v).Dot(bb.Sub(v)) < 0 {
					obtuse = true
				}
			}
		}
		run := true
		if obtuse {
			o.Label("planar-reproduction:obtuse-wedge")
			if kit.Excluded(tagObtuse) {
				kit.CountExcluded(tagObtuse)
				run = false
			}
		} else {
			o.Label("planar-reproduction:acute")
		}
		for vi, v := range s.verts {
			if !run || s.onBd[vi] {
				continue
			}
			want := kit.V2{c.Affine[0]*v[0] + c.Affine[1]*v[1] + c.Affine[4], c.Affine[2]*v[0] + c.Affine[3]*v[1] + c.Affine[5]}
			if d := want.Dist(uv[vi]); !(d <= 1e-4*scale) {
				return fmt.Errorf("shape-preserving weights do not reproduce a planar triangulation: vertex %v of the flat disc should be at its own (affinely mapped) position %v but is at %v (distance %.3g, boundary size %.3g)", v, want, uv[vi], d, scale)
			}
		}
	}
	// (c) orientation and area.  Signed areas of an oriented disc always add up to the signed
	// area of its boundary polygon, so "sum of |areas| = |polygon area|" holds iff nothing is flipped.
	poly := 0.0
	for i := range s.loop {
		poly += uv[s.loop[i]].Cross(uv[s.loop[(i+1)%len(s.loop)]])
	}
	poly /= 2
	sign := 1.0
	if poly < 0 {
		sign = -1
	}
	sumAbs := 0.0
	zero := 0
	for fi, f := range s.f {
		a, bb, cc := uv[f[0]], uv[f[1]], uv[f[2]]
		a2 := sign * kit.Orient2(a, bb, cc)
		sumAbs += math.Abs(a2) / 2
		longest := math.Max(a.Dist(bb), math.Max(bb.Dist(cc), a.Dist(cc)))
		shortest := math.Min(a.Dist(bb), math.Min(bb.Dist(cc), a.Dist(cc)))
		allBd := s.onBd[f[0]] && s.onBd[f[1]] && s.onBd[f[2]]
		if a2 == 0 {
			zero++
		}
		// a triangle can only look flipped by the solver's position error (<= 1e-6 scale, see (b))
		if longest > 0 && a2/longest < -1e-6*scale {
			return fmt.Errorf("face %d %v is flipped in the plane: %v %v %v has signed height %.3g against the boundary's orientation", fi, s.tris[fi], a, bb, cc, a2/longest)
		}
		// three distinct prescribed points on a strictly convex curve: strictly positive area,
		// unless the boundary is the square (documented) or a p-norm curve with flat sides
		strict := c.Boundary == "circle" || c.Boundary == "custom" || (c.Boundary == "pnorm" && c.PNorm <= 2.5)
		if allBd && strict && shortest > 1e-4*scale && !(a2 > 0) {
			return fmt.Errorf("face %d has all its vertices on the %s boundary at %v %v %v but signed area %.3g (degenerate or flipped)", fi, c.Boundary, a, bb, cc, a2/2)
		}
	}
	if zero > 0 {
		o.Label("zero-area-triangles")
	}
	if !(math.Abs(sumAbs-math.Abs(poly)) <= 1e-6*scale*scale) {
		return fmt.Errorf("the 2D triangles have total area %.12g but the boundary polygon has area %.12g (overlap or flip)", sumAbs, math.Abs(poly))
	}
	// (d) ExtendBoundaryUVs (documented for boundaries centred at the origin, as the library's own are): it moves the
	// tips of boundary ears outwards so that "these triangles are not highly stretched or even fully degenerate":
	// every coordinate stays finite, nothing flips, and an ear that was flat in the plane (three prescribed points
	// on a straight side of the square) gets positive area when it has area in 3D
	if c.Boundary == "circle" || c.Boundary == "pnorm" || c.Boundary == "square" {
		ext := model3d.NewCoordMap[model2d.Coord]()
		res.Range(func(k model3d.Coord3D, v model2d.Coord) bool {
			ext.Store(k, v)
			return true
		})
		model3d.ExtendBoundaryUVs(b.m, ext, 0.1*scale)
		uv2 := make([]kit.V2, len(s.verts))
		for vi, v := range s.verts {
			p, ok := uvOf(ext, v)
			if !ok || !p.Finite() {
				return fmt.Errorf("after ExtendBoundaryUVs vertex %v has no finite parameter value (%v, present=%v); before: %v", v, p, ok, uv[vi])
			}
			uv2[vi] = p
		}
		for fi, f := range s.f {
			a, bb, cc := uv2[f[0]], uv2[f[1]], uv2[f[2]]
			a2 := sign * kit.Orient2(a, bb, cc)
			longest := math.Max(a.Dist(bb), math.Max(bb.Dist(cc), a.Dist(cc)))
			if longest > 0 && a2/longest < -1e-6*scale {
				return fmt.Errorf("after ExtendBoundaryUVs face %d is flipped in the plane: %v %v %v", fi, a, bb, cc)
			}
			before := sign * kit.Orient2(uv[f[0]], uv[f[1]], uv[f[2]])
			t3 := s.tris[fi]
			area3 := t3[1].Sub(t3[0]).Cross(t3[2].Sub(t3[0])).Norm()
			l3 := math.Max(t3[0].Dist(t3[1]), math.Max(t3[1].Dist(t3[2]), t3[0].Dist(t3[2])))
			if s.onBd[f[0]] && s.onBd[f[1]] && s.onBd[f[2]] && math.Abs(before) <= 1e-12*scale*scale && area3 > 1e-3*l3*l3 && isEar(s, f) && !(a2 > 0) {
				return fmt.Errorf("ExtendBoundaryUVs left the boundary ear %d flat in the plane (%v %v %v) although it has area in 3D", fi, a, bb, cc)
			}
		}
		o.Label("extend-boundary-uvs")
	}
	return nil
}

// isEar: the three vertices are consecutive on the boundary loop.
func isEar(s *surf, f [3]int) bool {
	n := len(s.loop)
	pos := map[int]int{}
	for i, v := range s.loop {
		pos[v] = i
	}
	for k := 0; k < 3; k++ {
		i, ok := pos[f[k]]
		if !ok {
			return false
		}
		prev, next := s.loop[(i+n-1)%n], s.loop[(i+1)%n]
		if (prev == f[(k+1)%3] && next == f[(k+2)%3]) || (prev == f[(k+2)%3] && next == f[(k+1)%3]) {
			return true
		}
	}
	return false
}

// ---------------------------------------------------------------------------
// clauses 4 and 5: atlas (BuildAutomaticUVMap / PackMeshUVMaps) and MapFn

type atlasCase struct {
	Mesh       meshSpec   `json:"mesh"`
	API        string     `json:"api"` // auto | pack
	Resolution int        `json:"resolution,omitempty"`
	MaxSize    int        `json:"max_size,omitempty"`
	Rect       [4]float64 `json:"rect,omitempty"` // min x, min y, max x, max y
	BorderFrac float64    `json:"border_frac,omitempty"`
	PNorm      float64    `json:"pnorm,omitempty"`
	QSeed      uint64     `json:"qseed"`
	NQ         int        `json:"nq"`
}

func genAtlas(t *rapid.T) atlasCase {
	c := atlasCase{API: pick(t, []string{"auto", "pack", "pack"}, "api"), QSeed: rapid.Uint64().Draw(t, "qseed"), NQ: gen.Int(t, 5, 40, "nq")}
	c.Mesh = meshGen(t, c.API == "pack" && gen.Int(t, 0, 4, "thin?") == 0)
	if c.API == "auto" {
		c.Resolution = 1 << uint(gen.Int(t, 4, 10, "log2res"))
		return c
	}
	if gen.Int(t, 0, 2, "limit") > 0 {
		c.MaxSize = gen.Int(t, 3, 120, "maxsize")
	}
	x0, y0 := gen.F(t, -3, 3, "x0"), gen.F(t, -3, 3, "y0")
	c.Rect = [4]float64{x0, y0, x0 + gen.LogF(t, 0.1, 10, "w"), y0 + gen.LogF(t, 0.1, 10, "h")}
	c.BorderFrac = gen.F(t, 0.01, 0.9, "border")
	if gen.Int(t, 0, 2, "binary") == 0 {
		// binary layouts, as BuildAutomaticUVMap makes them: a rectangle with power-of-two sides at a multiple of
		// them, and a border that is an exact binary fraction of the side, so that the cells of some level of the
		// quad tree are exactly two borders wide (no room) and those of the level above exactly four
		w, h := math.Ldexp(1, gen.Int(t, -3, 3, "log2w")), math.Ldexp(1, gen.Int(t, -3, 3, "log2h"))
		x0, y0 = w*float64(gen.Int(t, -3, 3, "kx")), h*float64(gen.Int(t, -3, 3, "ky"))
		c.Rect = [4]float64{x0, y0, x0 + w, y0 + h}
		c.BorderFrac = pick(t, []float64{1, 0.5, 0.25}, "binaryborder")
	}
	c.PNorm = pick(t, []float64{2, 4, 1.5, 3}, "p")
	return c
}

type atlas struct {
	b        *built
	uv       model3d.MeshUVMap
	border   float64
	lo, hi   kit.V2
	chartOf  []int               // pack: chart of every face
	in       []model3d.MeshUVMap // pack: the maps that were packed
	nCharts  int
	infeasib bool
}

// previewSolver: a caller takes the default solver and loosens it for a quick preview of its own; the solver is the
// caller's, and what the library uses when it is given none stays as documented.
func previewSolver() {
	s := model3d.Floater97DefaultSolver()
	s.MaxIters, s.MSETolerance, s.MAETolerance = 1, 1, 1
}

var chartCountLine = regexp.MustCompile(`created a total of (\d+) local parameterizations`)

func callPack(min, max model2d.Coord, border float64, maps []model3d.MeshUVMap) (res model3d.MeshUVMap, infeasible bool) {
	defer func() {
		if p := recover(); p != nil {
			if s, ok := p.(string); ok && s == "bounds are invalid" {
				infeasible = true
				return
			}
			panic(p)
		}
	}()
	return model3d.PackMeshUVMaps(min, max, border, maps), false
}

func buildAtlas(c atlasCase, o *kit.Obs) (*atlas, error) {
	ts, _ := c.Mesh.build()
	labelMesh(o, c.Mesh, ts)
	o.Label("api:" + c.API)
	if len(ts) == 0 {
		o.Skip("empty-mesh")
		return nil, nil
	}
	if _, err := index(ts); err != nil {
		o.Skip("input-not-an-oriented-manifold-subset")
		return nil, nil
	}
	a := &atlas{b: wrap(ts)}
	if c.API == "auto" {
		o.Labelf("resolution:%d", c.Resolution)
		var nan, cells bool
		func() {
			defer func() {
				if p := recover(); p != nil {
					if s, ok := p.(string); ok && s == "bounds are invalid" {
						cells = true
						return
					}
					panic(p)
				}
			}()
			// verbose mode only adds log lines; the last one tells how many charts were packed
			var logged bytes.Buffer
			log.SetOutput(&logged)
			defer func() {
				log.SetOutput(os.Stderr)
				if m := chartCountLine.FindSubmatch(logged.Bytes()); m != nil {
					a.nCharts, _ = strconv.Atoi(string(m[1]))
				}
			}()
			nan = guarded(func() { a.uv = model3d.BuildAutomaticUVMap(a.b.m, c.Resolution, true) })
		}()
		if nan {
			return nil, solverVerdict(o, "BuildAutomaticUVMap")
		}
		// The border is 1/resolution and a quad-tree cell must be larger than two borders: (resolution/4)^2 cells at
		// most. With more charts than that no layout exists at this resolution (the number of charts is the
		// library's choice, up to several hundred on high-genus meshes): the panic is then a rejection, and a layout
		// that happens to come out has cells without interior. Neither is judged.
		if !nan && a.nCharts > (c.Resolution/4)*(c.Resolution/4) {
			o.Skip("resolution-too-small-for-the-chart-count")
			return nil, nil
		}
		if cells {
			if kit.Excluded(tagCells) {
				kit.CountExcluded(tagCells)
				o.Label("excluded:" + tagCells)
				return nil, nil
			}
			return nil, fmt.Errorf("BuildAutomaticUVMap(resolution %d) panicked with \"bounds are invalid\" on a manifold mesh of %d faces: a cell of its area-balanced quad tree is smaller than twice the border", c.Resolution, len(ts))
		}
		a.lo, a.hi = kit.V2{0, 0}, kit.V2{1, 1}
		return a, a.b.unchanged()
	}
	parts, err := a.b.partition(model3d.MeshToPlaneGraphsLimited(a.b.m, c.MaxSize, 0))
	if err != nil {
		o.Skip("decomposition-invalid (judged by the charts clause)")
		return nil, nil
	}
	a.chartOf = make([]int, len(ts))
	for ci, ix := range parts {
		if _, err := analyse(a.b.sub(ix)); err != nil {
			o.Skip("decomposition-invalid (judged by the charts clause)")
			return nil, nil
		}
		ch := a.b.subMesh(ix)
		var bm *model3d.CoordMap[model2d.Coord]
		if c.PNorm == 2 {
			bm = model3d.CircleBoundary(ch)
		} else {
			bm = model3d.PNormBoundary(ch, c.PNorm)
		}
		var param *model3d.CoordMap[model2d.Coord]
		if guarded(func() { param = model3d.Floater97(ch, bm, model3d.Floater97UniformWeights(ch), nil) }) {
			return nil, solverVerdict(o, "Floater97")
		}
		a.in = append(a.in, model3d.NewMeshUVMapForCoords(ch, param))
		for _, k := range ix {
			a.chartOf[k] = ci
		}
	}
	a.nCharts = len(parts)
	a.lo, a.hi = kit.V2{c.Rect[0], c.Rect[1]}, kit.V2{c.Rect[2], c.Rect[3]}
	// the layout is a quad tree: with a balanced tree the smallest cell has 1/2^ceil(log4 n) of the side
	depth := 0
	for n := 1; n < len(parts); n *= 4 {
		depth++
	}
	a.border = c.BorderFrac * math.Min(a.hi[0]-a.lo[0], a.hi[1]-a.lo[1]) / float64(int(4)<<uint(depth))
	var inf bool
	a.uv, inf = callPack(m3.C2(a.lo), m3.C2(a.hi), a.border, a.in)
	if inf {
		// the requested border does not fit the cells of an unbalanced layout: not a documented input
		o.Skip("border-too-large-for-layout")
		return nil, nil
	}
	// joining charts makes a new map: every chart handed in is still its own chart afterwards
	sizes := make([]int, len(a.in))
	for i, m := range a.in {
		sizes[i] = len(m)
	}
	joined := model3d.JoinMeshUVMaps(a.in...)
	total := 0
	for i, m := range a.in {
		if len(m) != sizes[i] {
			return nil, fmt.Errorf("JoinMeshUVMaps changed chart %d of its arguments from %d to %d faces", i, sizes[i], len(m))
		}
		total += sizes[i]
		for tri, uv := range m {
			if got, ok := joined[tri]; !ok || got != uv {
				return nil, fmt.Errorf("JoinMeshUVMaps: a face of chart %d is missing from the joined map or has other coordinates", i)
			}
		}
	}
	if len(joined) != total {
		return nil, fmt.Errorf("JoinMeshUVMaps of charts with %d faces in total has %d faces", total, len(joined))
	}
	return a, a.b.unchanged()
}

type box2 struct{ lo, hi kit.V2 }

func (b *box2) add(p kit.V2) {
	for k := 0; k < 2; k++ {
		b.lo[k], b.hi[k] = math.Min(b.lo[k], p[k]), math.Max(b.hi[k], p[k])
	}
}

func emptyBox() box2 {
	return box2{kit.V2{math.Inf(1), math.Inf(1)}, kit.V2{math.Inf(-1), math.Inf(-1)}}
}

// gap is the largest axis separation of two boxes (negative when they overlap).
func gap(a, b box2) float64 {
	g := math.Inf(-1)
	for k := 0; k < 2; k++ {
		g = math.Max(g, math.Max(a.lo[k]-b.hi[k], b.lo[k]-a.hi[k]))
	}
	return g
}

func (a *atlas) uvTri(k int) ([3]kit.V2, bool) {
	v, ok := a.uv[a.b.faces[k]]
	return [3]kit.V2{m3.V2(v[0]), m3.V2(v[1]), m3.V2(v[2])}, ok
}

func checkAtlas(c atlasCase, o *kit.Obs) error {
	a, err := buildAtlas(c, o)
	if a == nil || err != nil {
		return err
	}
	n := len(a.b.faces)
	// every face mapped, nothing else
	if len(a.uv) != n {
		return fmt.Errorf("%s: the UV map has %d entries for a mesh of %d faces", c.API, len(a.uv), n)
	}
	ext := math.Max(a.hi[0]-a.lo[0], a.hi[1]-a.lo[1])
	tris := make([][3]kit.V2, n)
	for k := 0; k < n; k++ {
		t, ok := a.uvTri(k)
		if !ok {
			return fmt.Errorf("%s: face %d %v has no UV triangle", c.API, k, a.b.ts[k])
		}
		tris[k] = t
		for _, p := range t {
			if !p.Finite() {
				return fmt.Errorf("%s: face %d has the non-finite UV coordinate %v", c.API, k, p)
			}
			// pack: the border is kept free along the rectangle's edges (1e-12 of the extent for the affine rescaling)
			for d := 0; d < 2; d++ {
				if !(p[d] >= a.lo[d]+a.border-1e-12*ext && p[d] <= a.hi[d]-a.border+1e-12*ext) {
					return fmt.Errorf("%s: face %d has the UV coordinate %v outside [%v, %v] shrunk by the border %g", c.API, k, p, a.lo, a.hi, a.border)
				}
			}
		}
	}
	var boxes []box2
	if c.API == "pack" {
		// per chart: the packed map is an axis-aligned positive rescaling of the input map
		in := make([]box2, a.nCharts)
		out := make([]box2, a.nCharts)
		for i := range in {
			in[i], out[i] = emptyBox(), emptyBox()
		}
		for k := 0; k < n; k++ {
			src := a.in[a.chartOf[k]][a.b.faces[k]]
			for j := 0; j < 3; j++ {
				in[a.chartOf[k]].add(m3.V2(src[j]))
				out[a.chartOf[k]].add(tris[k][j])
			}
		}
		for k := 0; k < n; k++ {
			ci := a.chartOf[k]
			src := a.in[ci][a.b.faces[k]]
			for j := 0; j < 3; j++ {
				for d := 0; d < 2; d++ {
					s := (out[ci].hi[d] - out[ci].lo[d]) / (in[ci].hi[d] - in[ci].lo[d])
					want := out[ci].lo[d] + (m3.V2(src[j])[d]-in[ci].lo[d])*s
					if !(s > 0) || !(math.Abs(want-tris[k][j][d]) <= 1e-12*ext) {
						return fmt.Errorf("pack: chart %d is not an axis-aligned rescaling of its input: vertex %d of face %d is at %v, expected coordinate %d = %.15g (scale %g)", ci, j, k, tris[k][j], d, want, s)
					}
				}
			}
		}
		boxes = out
		// MeshUVMap.ToBounds: "the 2D bounding box is rescaled and translated to a new min and max"
		tlo, thi := kit.V2{a.lo[0] - 0.5*ext, a.lo[1] + 0.25*ext}, kit.V2{a.hi[0] + 0.125*ext, a.hi[1] + 2*ext}
		tb := a.uv.ToBounds(m3.C2(tlo), m3.C2(thi))
		if len(tb) != n {
			return fmt.Errorf("ToBounds returned %d entries for %d faces", len(tb), n)
		}
		all := emptyBox()
		for k := 0; k < n; k++ {
			for j := 0; j < 3; j++ {
				all.add(tris[k][j])
			}
		}
		text := math.Max(thi[0]-tlo[0], thi[1]-tlo[1])
		for k := 0; k < n; k++ {
			got, ok := tb[a.b.faces[k]]
			if !ok {
				return fmt.Errorf("ToBounds dropped face %d", k)
			}
			for j := 0; j < 3; j++ {
				for d := 0; d < 2; d++ {
					want := tlo[d] + (tris[k][j][d]-all.lo[d])/(all.hi[d]-all.lo[d])*(thi[d]-tlo[d])
					// closed form in doubles: 1e-12 of the target size
					if g := m3.V2(got[j])[d]; !(math.Abs(g-want) <= 1e-12*text) {
						return fmt.Errorf("ToBounds([%v, %v]): vertex %d of face %d has coordinate %d = %.15g, the rescaled bounding box puts it at %.15g", tlo, thi, j, k, d, g, want)
					}
				}
			}
		}
		o.Label("charts:" + bucket(a.nCharts))
		if a.nCharts >= 2 {
			o.NonTrivial()
		}
	} else {
		// 2D connected components: faces sharing a 2D vertex
		parent := make([]int, n)
		for i := range parent {
			parent[i] = i
		}
		var find func(i int) int
		find = func(i int) int {
			for parent[i] != i {
				parent[i] = parent[parent[i]]
				i = parent[i]
			}
			return i
		}
		owner := map[kit.V2]int{}
		for k := 0; k < n; k++ {
			for _, p := range tris[k] {
				for d := range p {
					if p[d] == 0 {
						p[d] = 0
					}
				}
				if j, ok := owner[p]; ok {
					parent[find(k)] = find(j)
				} else {
					owner[p] = k
				}
			}
		}
		comp := map[int]int{}
		for k := 0; k < n; k++ {
			r := find(k)
			ci, ok := comp[r]
			if !ok {
				ci = len(boxes)
				comp[r] = ci
				boxes = append(boxes, emptyBox())
			}
			for _, p := range tris[k] {
				boxes[ci].add(p)
			}
		}
		o.Label("charts:" + bucket(len(boxes)))
		if len(boxes) >= 2 {
			o.NonTrivial()
		}
	}
	for i := range boxes {
		for j := i + 1; j < len(boxes); j++ {
			g := gap(boxes[i], boxes[j])
			// pack: each map keeps `border` free around itself, so two maps are at least one border apart
			if !(g > 0) || g < a.border*(1-1e-9) {
				return fmt.Errorf("%s: the bounding boxes of charts %d [%v, %v] and %d [%v, %v] are %.3g apart (border %g): charts are not disjoint", c.API, i, boxes[i].lo, boxes[i].hi, j, boxes[j].lo, boxes[j].hi, g, a.border)
			}
		}
	}
	return nil
}

func checkMapFn(c atlasCase, o *kit.Obs) error {
	a, err := buildAtlas(c, o)
	if a == nil || err != nil {
		return err
	}
	n := len(a.b.faces)
	if len(a.uv) != n {
		o.Skip("atlas-incomplete (judged by the atlas clause)")
		return nil
	}
	if c.QSeed%3 == 0 {
		// a map of the caller's own making: the atlas flipped to the image convention (v -> lo + hi - v), so that every
		// UV triangle is clockwise; the lookup is by position, not by winding
		mirrored := model3d.MeshUVMap{}
		for tri, uv := range a.uv {
			for j := range uv {
				uv[j].Y = a.lo[1] + a.hi[1] - uv[j].Y
			}
			mirrored[tri] = uv
		}
		a.uv = mirrored
		o.Label("uv:mirrored(clockwise)")
	}
	fn := a.uv.MapFn()
	lo3, hi3 := bbox(a.b.ts)
	diam := hi3.Dist(lo3)
	tol := 1e-9 * diam
	ext := math.Max(a.hi[0]-a.lo[0], a.hi[1]-a.lo[1])
	if a.nCharts >= 2 || c.API == "auto" {
		o.NonTrivial()
	}
	rng := &prng{s: c.QSeed}
	// which UV edges are chart boundary edges (pack: the 3D neighbour across the edge is in another chart or absent)
	var s *surf
	if c.API == "pack" {
		s, _ = index(a.b.ts)
	}
	query := func(k int, bary [3]float64, what string) error {
		t := tris2(a, k)
		uv := t[0].Scale(bary[0]).Add(t[1].Scale(bary[1])).Add(t[2].Scale(bary[2]))
		want := a.b.ts[k][0].Scale(bary[0]).Add(a.b.ts[k][1].Scale(bary[1])).Add(a.b.ts[k][2].Scale(bary[2]))
		got, tri := fn(m3.C2(uv))
		if tri == nil {
			return fmt.Errorf("MapFn(%v) returned a nil triangle", uv)
		}
		if _, ok := a.b.idx[tri]; !ok {
			return fmt.Errorf("MapFn(%v) returned a triangle that is not a face of the mesh", uv)
		}
		if d := m3.V3(got).Dist(want); !(d <= tol) {
			return fmt.Errorf("MapFn(%v) (%s: barycentric %v of face %d, UV triangle %v) = %v on face %d, want %v of face %d (distance %.3g, tolerance %.3g)", uv, what, bary, k, t, got, a.b.idx[tri], want, k, d, tol)
		}
		if d, _ := kit.PointTriDist(m3.V3(got), m3.Tri(tri)); !(d <= tol) {
			return fmt.Errorf("MapFn(%v) returned the point %v which is %.3g away from the returned triangle", uv, got, d)
		}
		return nil
	}
	for q := 0; q < c.NQ; q++ {
		k := rng.intn(n)
		t := tris2(a, k)
		a2 := math.Abs(kit.Orient2(t[0], t[1], t[2]))
		longest := math.Max(t[0].Dist(t[1]), math.Max(t[1].Dist(t[2]), t[0].Dist(t[2])))
		// conditioning: the library inverts the UV triangle; with height h the barycentric error is
		// ~1e-16 |uv| / h, so 1e-9 needs h >= ~1e-6 |uv|; thinner UV triangles are not judged
		if !(longest > 0) || a2/longest < 1e-5*(ext+math.Max(math.Abs(a.lo[0]), math.Abs(a.lo[1]))) {
			o.Label("skip:uv-sliver")
			continue
		}
		// interior point
		u, v := rng.f(), rng.f()
		if u+v > 1 {
			u, v = 1-u, 1-v
		}
		bi := [3]float64{0.02 + 0.94*(1-u-v), 0.02 + 0.94*u, 0.02 + 0.94*v}
		bi[0] = 1 - bi[1] - bi[2]
		if err := query(k, bi, "interior"); err != nil {
			return err
		}
		// near / on an edge, and at a vertex
		e := rng.intn(3)
		eps := []float64{1e-3, 1e-6, 1e-9, 0}[rng.intn(4)]
		sp := 0.05 + 0.9*rng.f()
		var be [3]float64
		be[e], be[(e+1)%3] = (1-eps)*sp, (1-eps)*(1-sp)
		be[(e+2)%3] = 1 - be[e] - be[(e+1)%3]
		if err := query(k, be, fmt.Sprintf("edge eps=%g", eps)); err != nil {
			return err
		}
		var bv [3]float64
		bv[e] = 1
		if err := query(k, bv, "vertex"); err != nil {
			return err
		}
		// just outside a chart boundary edge of a convex chart: documented to use the nearest point of the
		// triangulation, which is the foot on that edge (other charts are at least one border away)
		if s != nil && a.border > 0 {
			f := s.f[k]
			g, twin := s.dir[[2]int{f[(e+1)%3], f[e]}]
			if !twin || a.chartOf[g] != a.chartOf[k] {
				o.Label("outside-boundary-edge")
				p0, p1 := t[e], t[(e+1)%3]
				dirv := p1.Sub(p0)
				nrm := kit.V2{dirv[1], -dirv[0]}.Unit()
				if nrm.Dot(t[(e+2)%3].Sub(p0)) > 0 {
					nrm = nrm.Scale(-1)
				}
				delta := a.border * 0.3 * rng.f()
				uv := p0.Add(dirv.Scale(sp)).Add(nrm.Scale(delta))
				want := a.b.ts[k][e].Scale(1 - sp).Add(a.b.ts[k][(e+1)%3].Scale(sp))
				got, tri := fn(m3.C2(uv))
				if tri == nil {
					return fmt.Errorf("MapFn(%v) returned a nil triangle", uv)
				}
				// the foot parameter is recovered from a point delta away: error ~1e-16 (|uv| + delta) / |edge|
				if d := m3.V3(got).Dist(want); !(d <= tol+1e-7*diam*delta/dirv.Norm()) {
					return fmt.Errorf("MapFn(%v) (%.3g outside boundary edge %d of face %d at parameter %.6g) = %v on face %d, want the nearest point of the triangulation %v (distance %.3g)", uv, delta, e, k, sp, got, a.b.idx[tri], want, d)
				}
			}
		}
	}
	return nil
}

func tris2(a *atlas, k int) [3]kit.V2 {
	t, _ := a.uvTri(k)
	return t
}

// ---------------------------------------------------------------------------

// memoryGuard ends the process when the heap explodes: the library walks boundary loops with
// "append until back at the start", which never ends (and allocates without bound) on a chart
// that is not a disc - something only a defect upstream can produce.  All clauses are Fresh, so
// the driver attributes the death to the case that was running and replays it.
func memoryGuard() {
	const limit = 3 << 30
	for {
		time.Sleep(100 * time.Millisecond)
		var ms runtime.MemStats
		runtime.ReadMemStats(&ms)
		if ms.HeapAlloc > limit {
			fmt.Fprintf(os.Stderr, "c18: heap grew to %d MiB inside one case (unbounded loop in the library); giving up\n", ms.HeapAlloc>>20)
			os.Exit(4)
		}
	}
}

func TestProp(t *testing.T) {
	runtime.GOMAXPROCS(2)
	go memoryGuard()
	const bud = 30 * time.Second
	kit.Run(t, "C18", rule,
		kit.Clause[chartCase]{Name: "C18/charts", Quick: 8000, Thorough: 60000, Gen: genChart, Check: checkChart, Fresh: true, Budget: bud},
		kit.Clause[splitCase]{Name: "C18/split", Quick: 5000, Thorough: 40000, Gen: genSplit, Check: checkSplit, Fresh: true, Budget: bud},
		kit.Clause[floaterCase]{Name: "C18/floater", Quick: 12000, Thorough: 90000, Gen: genFloater, Check: checkFloater, Fresh: true, Budget: bud},
		kit.Clause[atlasCase]{Name: "C18/atlas", Quick: 3000, Thorough: 20000, Gen: genAtlas, Check: checkAtlas, Fresh: true, Budget: bud},
		kit.Clause[atlasCase]{Name: "C18/mapfn", Quick: 3000, Thorough: 20000, Gen: genAtlas, Check: checkMapFn, Fresh: true, Budget: bud},
	)
}
