package c18

import (
	"fmt"

	"verifharness/kit"
)

// Independent combinatorics of a triangle list (vertex identity is == on coordinates,
// -0 == +0, exactly as in the library's maps).  Nothing here calls the library.

func canonV(v kit.V3) kit.V3 {
	for i := range v {
		if v[i] == 0 {
			v[i] = 0
		}
	}
	return v
}

type surf struct {
	tris  []kit.Tri
	verts []kit.V3       // id -> position
	id    map[kit.V3]int // position -> id
	f     [][3]int       // faces as vertex ids
	dir   map[[2]int]int // directed edge -> face
	nbrs  [][]int        // vertex -> neighbour vertices, in order of first appearance (deterministic)
	nE    int            // undirected edges
	loop  []int          // boundary loop (vertex ids, following the face orientation); nil when closed
	onBd  []bool         // vertex is on the boundary
}

// index builds ids and the directed edge table.  It fails when a face repeats a
// vertex or a directed edge is used twice (non-manifold edge or inconsistent orientation).
func index(ts []kit.Tri) (*surf, error) {
	s := &surf{tris: ts, id: map[kit.V3]int{}, dir: map[[2]int]int{}}
	for fi, t := range ts {
		var f [3]int
		for k := 0; k < 3; k++ {
			v := canonV(t[k])
			if !v.Finite() {
				return nil, fmt.Errorf("face %d has a non-finite vertex %v", fi, v)
			}
			i, ok := s.id[v]
			if !ok {
				i = len(s.verts)
				s.id[v] = i
				s.verts = append(s.verts, v)
				s.nbrs = append(s.nbrs, nil)
			}
			f[k] = i
		}
		if f[0] == f[1] || f[1] == f[2] || f[0] == f[2] {
			return nil, fmt.Errorf("face %d repeats a vertex: %v", fi, t)
		}
		s.f = append(s.f, f)
		for k := 0; k < 3; k++ {
			e := [2]int{f[k], f[(k+1)%3]}
			if g, dup := s.dir[e]; dup {
				return nil, fmt.Errorf("directed edge %v->%v is used by faces %d and %d (edge shared by more than two faces, or inconsistent orientation)", s.verts[e[0]], s.verts[e[1]], g, fi)
			}
			s.dir[e] = fi
		}
	}
	for _, f := range s.f {
		for k := 0; k < 3; k++ {
			a, b := f[k], f[(k+1)%3]
			if _, twin := s.dir[[2]int{b, a}]; !twin || a < b {
				s.nE++
			}
			s.addNbr(a, b)
			s.addNbr(b, a)
		}
	}
	s.onBd = make([]bool, len(s.verts))
	return s, nil
}

func (s *surf) addNbr(a, b int) {
	for _, x := range s.nbrs[a] {
		if x == b {
			return
		}
	}
	s.nbrs[a] = append(s.nbrs[a], b)
}

// edgeComponents counts the classes of faces connected through shared edges.
func (s *surf) edgeComponents() int {
	parent := make([]int, len(s.f))
	for i := range parent {
		parent[i] = i
	}
	var find func(i int) int
	find = func(i int) int {
		for parent[i] != i {
			parent[i] = parent[parent[i]]
			i = parent[i]
		}
		return i
	}
	n := len(s.f)
	for fi, f := range s.f {
		for k := 0; k < 3; k++ {
			if g, ok := s.dir[[2]int{f[(k+1)%3], f[k]}]; ok {
				a, b := find(fi), find(g)
				if a != b {
					parent[a] = b
					n--
				}
			}
		}
	}
	return n
}

func (s *surf) euler() int { return len(s.verts) - s.nE + len(s.f) }

// analyse checks that the faces form a topological disc: consistently oriented, every
// edge in at most two faces, connected through edges, exactly one boundary loop that
// visits every boundary vertex once (no pinch), Euler characteristic 1.
func analyse(ts []kit.Tri) (*surf, error) {
	if len(ts) == 0 {
		return nil, fmt.Errorf("chart has no faces")
	}
	s, err := index(ts)
	if err != nil {
		return nil, err
	}
	if c := s.edgeComponents(); c != 1 {
		return nil, fmt.Errorf("chart has %d edge-connected components (want 1)", c)
	}
	next := map[int]int{}
	nb := 0
	start := -1
	for fi := range s.f {
		f := s.f[fi]
		for k := 0; k < 3; k++ {
			a, b := f[k], f[(k+1)%3]
			if _, twin := s.dir[[2]int{b, a}]; twin {
				continue
			}
			nb++
			if _, dup := next[a]; dup {
				return nil, fmt.Errorf("boundary passes through vertex %v more than once (pinched chart)", s.verts[a])
			}
			next[a] = b
			if start < 0 {
				start = a
			}
		}
	}
	if nb == 0 {
		return nil, fmt.Errorf("chart has no boundary (closed surface with %d faces, Euler characteristic %d)", len(s.f), s.euler())
	}
	cur := start
	for {
		s.loop = append(s.loop, cur)
		s.onBd[cur] = true
		nx, ok := next[cur]
		if !ok {
			return nil, fmt.Errorf("boundary is not a cycle: it ends at vertex %v", s.verts[cur])
		}
		cur = nx
		if cur == start || len(s.loop) > nb {
			break
		}
	}
	if len(s.loop) != nb {
		return nil, fmt.Errorf("chart has more than one boundary loop (%d boundary edges, the loop through %v has %d)", nb, s.verts[start], len(s.loop))
	}
	if x := s.euler(); x != 1 {
		return nil, fmt.Errorf("chart has Euler characteristic %d (V=%d E=%d F=%d), want 1", x, len(s.verts), s.nE, len(s.f))
	}
	return s, nil
}

func triArea3(t kit.Tri) float64 { return t.Area() }

func sumArea(ts []kit.Tri) float64 {
	var a float64
	for _, t := range ts {
		a += t.Area()
	}
	return a
}
