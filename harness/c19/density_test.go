package c19

// Clauses (a) "the density integrates to one" and (b) "the sampler draws from the density".

import (
	"fmt"
	"math"
	"math/rand"

	"verifharness/kit"
)

const (
	cellTol     = 1e-5 // absolute quadrature tolerance per top-level cell (cells carry about 1/128 of the mass); the error estimates actually incurred are accumulated and enter every decision
	gridBulk    = 12   // polar bins for the bulk of the primary lobe (plus ladder and uniform bins, see newWarp)
	gridNPhi    = 8
	integralTol = 1e-3 // clause (a): stated tolerance of the design
	maxQuadErr  = 3e-3 // more accumulated quadrature error than this: the case is not decidable, skipped
	zAlarm      = 6.5  // clause (b): upper-tail normal score (p about 4e-11)
	effectFloor = 1e-3 // ... and the estimated Pearson divergence must exceed this (3% rms density error)
	minExpected = 20.0 // cells with a smaller expectation are pooled
	klAlarm     = 27.0 // exact Chernoff exponent for binomial counts: p < 2e-12
)

// capProbe measures a constant-on-a-cap spike of f around axis: the value on the axis, the background
// value just outside, and the fraction of the sphere covered by the cap (found by bisection on three
// meridians, which must agree).  ok=false when there is no isotropic cap (overlapping caps) or when the value
// inside the cap differs from the value on the axis by more than relTol (relative).
func capProbe(f func(kit.V3) float64, axis kit.V3, relTol float64) (f0, fb, frac float64, ok bool) {
	e1, e2 := orthoBasis(axis)
	at := func(t kit.V3, th float64) float64 {
		return f(axis.Scale(math.Cos(th)).Add(t.Scale(math.Sin(th))).Unit())
	}
	f0 = f(axis)
	const far = 1e-3
	fb1, fb2 := at(e1, far), at(e1.Scale(-1), far)
	fb = (fb1 + fb2) / 2
	vary := math.Abs(fb1 - fb2) // how much the smooth background changes across the neighbourhood
	if !(f0 > math.Max(fb1, fb2)*(1+1e-6)+1e-12) {
		return f0, fb, 0, true // no spike here
	}
	thr := (f0 + math.Max(fb1, fb2)) / 2
	var ths [3]float64
	for k, t := range []kit.V3{e1, e1.Scale(-1), e2} {
		if at(t, far) > thr {
			return f0, fb, 0, false
		}
		lo, hi := 0.0, far
		for i := 0; i < 60; i++ {
			mid := (lo + hi) / 2
			if at(t, mid) > thr {
				lo = mid
			} else {
				hi = mid
			}
		}
		ths[k] = (lo + hi) / 2
	}
	for k := 1; k < 3; k++ {
		if math.Abs(ths[k]-ths[0]) > 1e-5*ths[0] {
			return f0, fb, 0, false
		}
	}
	// constant inside (up to the variation of the smooth background)
	for _, t := range []kit.V3{e2, e1, e1.Scale(-1), e2.Scale(-1)} {
		for _, r := range []float64{0.5, 0.98} {
			if v := at(t, r*ths[0]); math.Abs(v-f0) > relTol*f0+4*vary+1e-6*fb {
				return f0, fb, 0, false
			}
		}
	}
	s := math.Sin(ths[0] / 2)
	return f0, fb, s * s, true
}

type analysis struct {
	smooth  []lobe
	deltas  []lobe // coincident ones merged
	hasGrid bool
	g       grid
	mass    []float64
	errs    []float64
	capMass []float64
	total   float64
	quadErr float64
	evals   int
}

// analyse integrates the reported density over the sphere.  skip != "" marks an undecidable configuration.
func analyse(d dist) (an *analysis, skip string, err error) {
	an = &analysis{}
	for _, l := range d.lobes {
		if l.kind != "delta" {
			an.smooth = append(an.smooth, l)
			continue
		}
		merged := false
		for i := range an.deltas {
			sep := angle(an.deltas[i].axis, l.axis)
			if sep < 1e-9 {
				an.deltas[i].w += l.w
				an.deltas[i].tag += "+" + l.tag
				merged = true
			} else if sep < 5e-3 {
				return an, "delta-lobes-overlap", nil
			}
		}
		if !merged {
			an.deltas = append(an.deltas, l)
		}
	}
	// delta lobes: measure their mass from the density itself
	for _, l := range an.deltas {
		f0, fb, frac, ok := capProbe(d.density, l.axis, 1e-9)
		if !ok {
			return an, "delta-lobe-not-isolated", nil
		}
		if math.IsNaN(f0) || math.IsInf(f0, 0) || f0 < -1e-9 {
			return an, "", fmt.Errorf("density %g on the axis %v of the %s lobe", f0, l.axis, l.tag)
		}
		m := (f0 - fb) * frac
		an.capMass = append(an.capMass, m)
		an.total += m
	}
	if len(an.smooth) > 0 {
		// primary = sharpest smooth lobe
		pi := 0
		for i, l := range an.smooth {
			if l.sigma() < an.smooth[pi].sigma() {
				pi = i
			}
		}
		uni := 2
		if len(an.smooth) > 1 {
			uni = 8
		}
		an.g = newGrid(an.smooth[pi], gridBulk, uni, gridNPhi)
		an.hasGrid = true
		q := &integ{f: d.density, maxEvals: 4000000, maxDepth: 8}
		for i, l := range an.smooth {
			if i != pi && l.sigma() < 0.35 {
				q.hints = append(q.hints, hint{l.axis, l.sigma()})
			}
		}
		for _, l := range an.deltas {
			q.avoid = append(q.avoid, l.axis)
		}
		q.circles = lobeCircles(an.smooth)
		an.mass, an.errs = an.g.masses(q, cellTol)
		an.evals = q.evals
		if q.bad {
			return an, "", fmt.Errorf("density is %g at direction %v (must be finite and non-negative)", q.badVal, q.badAt)
		}
		for i := range an.mass {
			an.total += an.mass[i]
			an.quadErr += an.errs[i]
		}
	}
	if an.quadErr > maxQuadErr {
		return an, "quadrature-not-converged", nil
	}
	return an, "", nil
}

// labelCuts classifies the configuration of the loci that cut cells of the grid obliquely.
func (an *analysis) labelCuts(o *kit.Obs) {
	if !an.hasGrid {
		return
	}
	oblique := 0
	for _, k := range lobeCircles(an.smooth) {
		c := k.axis.Dot(an.g.fr.a)
		if rho := math.Sqrt(math.Max(0, 1-c*c)); rho > 1e-6 {
			oblique++
			if beta, gamma := math.Acos(math.Max(-1, math.Min(1, c))), math.Acos(k.kappa); math.Abs(math.Abs(beta-gamma)) < 0.02 || math.Abs(beta+gamma-math.Pi) < 0.02 {
				o.Label("cut:equator-through-grid-pole")
			}
		}
	}
	switch {
	case oblique == 1:
		o.Label("cut:one-oblique-equator")
	case oblique > 1:
		o.Label("cut:several-oblique-equators")
	}
}

// lobeCircles lists the loci where a density made of these lobes is not smooth: the equator of a cos^alpha
// lobe (from alpha = 6 on the lobe is five times differentiable there and practically zero: nothing to split)
// and the rim of a cone.
func lobeCircles(ls []lobe) []circle {
	var out []circle
	for _, l := range ls {
		switch {
		case l.kind == "pow" && l.alpha < 6:
			out = append(out, circle{axis: l.axis})
		case l.kind == "cap":
			out = append(out, circle{axis: l.axis, kappa: l.minCos})
		}
	}
	return out
}

func describe(ls []lobe) string {
	s := ""
	for _, l := range ls {
		switch l.kind {
		case "pow":
			s += fmt.Sprintf("[cos^%.4g w=%.3g]", l.alpha, l.w)
		case "hg":
			s += fmt.Sprintf("[hg %.4g w=%.3g]", l.g, l.w)
		case "cap":
			s += fmt.Sprintf("[cone cos>=%.9g w=%.3g]", l.minCos, l.w)
		case "delta":
			s += fmt.Sprintf("[delta %s w=%.3g]", l.tag, l.w)
		}
	}
	return s
}

func checkTotal(an *analysis, d dist) error {
	if diff := math.Abs(an.total - 1); diff > integralTol+an.quadErr {
		return fmt.Errorf("the reported density integrates to %.6f over the sphere (relative to the uniform density; quadrature error <= %.1e), want 1; lobes %s, delta masses %v",
			an.total, an.quadErr, describe(d.lobes), an.capMass)
	}
	return nil
}

// capExact: the macroscopic cone of SphereFocusPoint is checked in closed form as well.
func checkConeClosedForm(d dist) error {
	if len(d.lobes) != 1 || d.lobes[0].kind != "cap" {
		return nil
	}
	l := d.lobes[0]
	ymax := 1 - l.minCos
	fr := newFrame(l.axis)
	D := d.density(l.axis)
	if math.Abs(D*ymax/2-1) > 1e-6 {
		return fmt.Errorf("density %g on the axis of the cone of rays hitting the sphere (1-cos = %g): mass %g, want 1", D, ymax, D*ymax/2)
	}
	for k := 0; k < 8; k++ {
		phi := float64(k) * 0.785
		if in := d.density(fr.dir(ymax*(1-1e-6), phi)); math.Abs(in-D) > 1e-9*D {
			return fmt.Errorf("density %g just inside the cone differs from %g on its axis", in, D)
		}
		if out := d.density(fr.dir(ymax*(1+1e-6), phi)); out != 0 {
			return fmt.Errorf("density %g just outside the cone of rays that hit the sphere, want 0", out)
		}
	}
	return nil
}

// mixtureIdentity: for a joined material the correct density of "pick part i with probability p_i, then
// sample part i" is sum p_i f_i; compared pointwise with the parts' own densities through the public API.
func checkMixtureIdentity(s Subject, d dist, seed int64) error {
	if s.Mat.Kind != "joined" || (s.Focus != nil && s.Focus.active(s.Point)) {
		return nil
	}
	var parts []dist
	for _, p := range s.Mat.Parts {
		sub := s
		sub.Mat = p
		sub.Focus = nil
		parts = append(parts, sub.build())
	}
	r := rand.New(rand.NewSource(seed))
	probe := func(w kit.V3) error {
		var want float64
		for i, p := range parts {
			want += s.Mat.Probs[i] * p.density(w)
		}
		got := d.density(w)
		if math.Abs(got-want) > 1e-9*math.Max(want, 1e-300)+1e-300 {
			return fmt.Errorf("joined density %g at %v differs from the probability-weighted sum of the parts' densities %g", got, w, want)
		}
		return nil
	}
	for i := 0; i < 40; i++ {
		var w kit.V3
		switch {
		case i%4 == 0:
			w = kit.V3{r.NormFloat64(), r.NormFloat64(), r.NormFloat64()}.Unit()
		case i%4 == 1:
			// near a lobe axis
			l := d.lobes[r.Intn(len(d.lobes))]
			w = l.axis.Add(kit.V3{r.NormFloat64(), r.NormFloat64(), r.NormFloat64()}.Scale(0.5 * l.sigma())).Unit()
		case i%4 == 2:
			w = d.lobes[r.Intn(len(d.lobes))].axis
		default:
			w = d.sample(r)
		}
		if err := probe(w); err != nil {
			return err
		}
	}
	return nil
}

func checkIntegral(s Subject, o *kit.Obs) error {
	s.labels(o)
	if tirMargin(s.Mat, s.Mode, s.Normal, s.Fixed) < 1e-9 {
		o.Skip("critical-angle")
		return nil
	}
	d := s.build()
	if err := checkConeClosedForm(d); err != nil {
		return err
	}
	if err := checkMixtureIdentity(s, d, 12345); err != nil {
		return err
	}
	an, skip, err := analyse(d)
	if err != nil {
		return err
	}
	if skip != "" {
		o.Skip(skip)
		return nil
	}
	if s.nontrivial() {
		o.NonTrivial()
	}
	if len(an.deltas) > 0 {
		o.Label("lobes:delta")
	}
	if len(an.smooth) > 1 {
		o.Label("lobes:mixture")
	}
	an.labelCuts(o)
	return checkTotal(an, d)
}

// ---------------------------------------------------------------------------

type statCase struct {
	S    Subject `json:"subject"`
	N    int     `json:"n"`
	Seed int64   `json:"seed"`
}

// nearBoundary: the direction is within rounding of the edge of the support of one of the lobes, where a
// zero density is legitimate.
func nearBoundary(ls []lobe, w kit.V3) bool {
	for _, l := range ls {
		switch l.kind {
		case "pow":
			if math.Abs(l.axis.Dot(w)) <= 1e-9 {
				return true
			}
		case "cap":
			d := w.Sub(l.axis)
			y := d.Dot(d) / 2
			if ymax := 1 - l.minCos; math.Abs(y-ymax) <= 1e-9*ymax+1e-15 {
				return true
			}
		}
	}
	return false
}

func checkSampler(c statCase, o *kit.Obs) error {
	s := c.S
	s.labels(o)
	if tirMargin(s.Mat, s.Mode, s.Normal, s.Fixed) < 1e-9 {
		o.Skip("critical-angle")
		return nil
	}
	d := s.build()
	an, skip, err := analyse(d)
	if err != nil {
		return err
	}
	if skip != "" {
		o.Skip(skip)
		return nil
	}
	if err := checkTotal(an, d); err != nil {
		return err
	}
	n := c.N
	// the bias that quadrature error can add to the statistic must be negligible
	if an.hasGrid {
		var b float64
		for i, m := range an.mass {
			if float64(n)*m >= minExpected {
				b += float64(n) * an.errs[i] * an.errs[i] / m
			}
		}
		if b > 4 {
			o.Skip("quadrature-too-coarse-for-n")
			return nil
		}
	}
	if s.nontrivial() {
		o.NonTrivial()
	}
	if len(an.deltas) > 0 {
		o.Label("lobes:delta")
	}
	if len(an.smooth) > 1 {
		o.Label("lobes:mixture")
	}
	an.labelCuts(o)
	r := rand.New(rand.NewSource(c.Seed))
	var obs []int
	if an.hasGrid {
		obs = make([]int, an.g.cells())
	}
	capObs := make([]int, len(an.deltas))
	for i := 0; i < n; i++ {
		w := d.sample(r)
		if !w.Finite() || math.Abs(w.Norm()-1) > 1e-9 {
			return fmt.Errorf("sample %d is %v (norm %.12g), not a unit vector", i, w, w.Norm())
		}
		if f := d.density(w); !(f > 0) && !nearBoundary(an.smooth, w) {
			return fmt.Errorf("sample %d = %v has reported density %g: the sampler draws a direction the density excludes; lobes %s", i, w, f, describe(d.lobes))
		}
		onCap := false
		for k, l := range an.deltas {
			if w.Sub(l.axis).Norm() < 1e-7 {
				capObs[k]++
				onCap = true
				break
			}
		}
		if onCap {
			continue
		}
		if !an.hasGrid {
			return fmt.Errorf("sample %d = %v is on none of the expected delta lobes %s (reference axes %v)", i, w, describe(an.deltas), axes(an.deltas))
		}
		obs[an.g.cellOf(w)]++
	}
	// delta lobes: exact binomial tail bound per lobe
	for k, l := range an.deltas {
		p := math.Min(1, math.Max(0, an.capMass[k]))
		if e := binomKL(capObs[k], n, p); e > klAlarm {
			return fmt.Errorf("%d of %d samples fall on the %s lobe, whose reported density carries mass %.6g (expected %.1f; Chernoff exponent %.1f)",
				capObs[k], n, l.tag, p, p*float64(n), e)
		}
	}
	if !an.hasGrid {
		return nil
	}
	exp := make([]float64, len(obs))
	for i, m := range an.mass {
		exp[i] = float64(n) * m
	}
	res := chiSquare(obs, exp, n, minExpected)
	if res.pooled < minExpected {
		// the cells too thin for the statistic, taken together: an exact Poisson/binomial tail bound (p < 1e-13)
		// against the expectation plus everything the quadrature may have missed there, and an effect floor.
		// (That no sample falls where the density is zero is checked pointwise above, without any quadrature.)
		upper := res.pooled
		for i, m := range an.mass {
			if float64(n)*m < minExpected {
				upper += float64(n) * 2 * an.errs[i]
			}
		}
		if e := poissonExcess(res.poolObs, upper); e > 30 && float64(res.poolObs)-upper > math.Max(10, 5e-4*float64(n)) {
			return fmt.Errorf("%d samples fall in the cells where the reported density predicts at most %.3g in total; lobes %s", res.poolObs, upper, describe(d.lobes))
		}
	}
	// margin of the statistical alarm on this tree (the alarm needs z > 6.5)
	switch {
	case res.k == 0:
	case res.z < 2:
		o.Label("z:<2")
	case res.z < 4:
		o.Label("z:2..4")
	default:
		o.Label("z:>=4")
	}
	if res.k > 0 && res.z > zAlarm && res.effect > effectFloor {
		wc := res.worst
		return fmt.Errorf("sampler and reported density disagree: chi-square %.1f on %d cells (z = %.1f, divergence %.2g) with %d samples; worst cell #%d (polar bin %d, azimuth bin %d): observed %d, expected %.1f; lobes %s",
			res.x2, res.k, res.z, res.effect, n, wc, wc/gridNPhi, wc%gridNPhi, obs[wc], exp[wc], describe(d.lobes))
	}
	return nil
}

func axes(ls []lobe) []kit.V3 {
	var out []kit.V3
	for _, l := range ls {
		out = append(out, l.axis)
	}
	return out
}
