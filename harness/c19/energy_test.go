package c19

// Clauses (c) "reflected energy never exceeds incident energy" and (d) "the Fresnel split follows the
// cited Schlick reflectance".

import (
	"fmt"
	"math"
	"math/rand"

	"pgregory.net/rapid"
	"verifharness/gen"
	"verifharness/kit"
	"verifharness/m3"
)

// ---------------------------------------------------------------------------
// (c)

type energyCase struct {
	Mat    Mat    `json:"mat"`
	Normal kit.V3 `json:"normal"`
	Fixed  kit.V3 `json:"fixed"`
	Over   string `json:"over"` // "dest": integrate over outgoing directions for the fixed source (the Material doc); "source": over incoming directions for the fixed dest (what the renderers and the library's own test integrate)
	Comp   int    `json:"comp"` // colour component
}

func scaleColours(m Mat, k float64) Mat {
	m.Spec, m.Diff = m.Spec.Scale(k), m.Diff.Scale(k)
	parts := make([]Mat, len(m.Parts))
	for i, p := range m.Parts {
		parts[i] = scaleColours(p, k)
	}
	if len(parts) > 0 {
		m.Parts = parts
	}
	return m
}

func energyGen(t *rapid.T) energyCase {
	c := energyCase{Comp: rapid.IntRange(0, 2).Draw(t, "comp")}
	kind := rapid.SampledFrom([]string{"lambert", "phong", "phong", "phong", "hg", "hg", "refract", "refract", "joined"}).Draw(t, "kind")
	c.Over = rapid.SampledFrom([]string{"dest", "source"}).Draw(t, "over")
	if kind == "joined" {
		// energy is split between smooth parts: the colours of the parts add up to at most one
		n := rapid.IntRange(2, 3).Draw(t, "nparts")
		m := Mat{Kind: "joined"}
		var shares []float64
		var sum float64
		for i := 0; i < n; i++ {
			p := matGen(t, 0, []string{"lambert", "phong", "phong", "hg"}, fmt.Sprintf("part%d", i))
			p.IgnoreNormals = true
			m.Parts = append(m.Parts, p)
			s := gen.F(t, 0.1, 1, fmt.Sprintf("share%d", i))
			shares = append(shares, s)
			sum += s
			m.Probs = append(m.Probs, 1/float64(n))
		}
		for i := range m.Parts {
			m.Parts[i] = scaleColours(m.Parts[i], shares[i]/sum)
		}
		c.Mat = m
	} else {
		c.Mat = matGen(t, 0, []string{kind}, "mat")
	}
	switch {
	case c.Mat.Kind == "refract":
		c.Over = "dest" // documented as asymmetric; its comments promise the outgoing flux
	case c.Mat.Kind == "hg" && !c.Mat.IgnoreNormals:
		c.Over = "source" // documented to cancel the cosine of the rendering equation, which is the incoming one
	}
	c.Normal, c.Fixed = dirsGen(t, "dirs")
	// the interesting side: the fixed source arrives from above / the fixed dest leaves above (3 times in 4)
	if (c.Over == "dest") == (c.Normal.Dot(c.Fixed) > 0) && rapid.IntRange(0, 3).Draw(t, "wrongside") > 0 {
		c.Fixed = mirror(c.Normal, c.Fixed)
	}
	return c
}

func checkEnergy(c energyCase, o *kit.Obs) error {
	mat := c.Mat.Build()
	n, fx := m3.C3(c.Normal), m3.C3(c.Fixed)
	o.Label("mat:" + c.Mat.Kind)
	o.Label("over:" + c.Over)
	bsdf := func(w kit.V3) float64 {
		var col kit.V3
		if c.Over == "dest" {
			col = m3.V3(mat.BSDF(n, fx, m3.C3(w)))
		} else {
			col = m3.V3(mat.BSDF(n, m3.C3(w), fx))
		}
		return col[c.Comp]
	}
	var lobes []lobe
	if c.Over == "dest" {
		lobes = lobesDest(c.Mat, c.Normal, c.Fixed, 1)
	} else {
		lobes = lobesSource(c.Mat, c.Normal, c.Fixed, 1)
	}
	if c.Mat.Kind == "refract" {
		if _, _, mg := snell(c.Normal, c.Fixed, c.Mat.Index); mg < 1e-9 {
			o.Skip("critical-angle")
			return nil
		}
		// delta lobes: value on the axis * cosine * measured size of the cap
		var total, slack float64
		var seen []kit.V3
	lobes:
		for _, l := range lobes {
			for _, s := range seen {
				if sep := angle(s, l.axis); sep < 1e-9 {
					continue lobes
				} else if sep < 5e-3 {
					o.Skip("delta-lobes-overlap")
					return nil
				}
			}
			seen = append(seen, l.axis)
			cs := math.Abs(l.axis.Dot(c.Normal))
			if cs < 0.01 {
				o.Skip("delta-lobe-grazing")
				return nil
			}
			// the flux through the spike: BSDF*|cos| on the axis times the measured size of the cap.  Across the
			// cap (angular radius 1.4e-4) the cosine, and with it the library's 1/cos and 1/max(cos, cos') factors,
			// change by at most 1.4e-4*tan(angle to the normal) relative: that is the constancy demanded from the
			// product and the slack granted to the bound
			rel := 3e-4 / cs
			prod := func(w kit.V3) float64 { return bsdf(w) * math.Abs(w.Dot(c.Normal)) }
			f0, _, frac, ok := capProbe(prod, l.axis, rel)
			if !ok {
				o.Skip("delta-lobe-not-isolated")
				return nil
			}
			if f0 < 0 && f0 > -1e-9 {
				f0 = 0 // rounding noise, as in integ.eval: (1-|cos|)^5 with |cos| = 1+2e-16 at normal incidence gives -1e-70
			}
			if !(f0 >= 0) || math.IsInf(f0, 0) {
				return fmt.Errorf("BSDF component %d is %g on the axis of the %s lobe", c.Comp, f0/cs, l.tag)
			}
			total += f0 * frac
			slack += f0 * frac * rel
		}
		if !c.Mat.suiteValue() {
			o.NonTrivial()
		}
		// how much of the bound is used (a probe that missed the spikes would read 0 and check nothing)
		switch {
		case total > 0.9:
			o.Label("refract-flux:>0.9")
		case total > 0.1:
			o.Label("refract-flux:0.1..0.9")
		default:
			o.Label("refract-flux:<0.1")
		}
		if total > 1+1e-6+slack {
			return fmt.Errorf("refracting material sends out %.6f of the incoming flux (component %d, index %g, cos of incidence %.4g), more than it receives",
				total, c.Comp, c.Mat.Index, c.Normal.Dot(c.Fixed))
		}
		return nil
	}
	f := func(w kit.V3) float64 { return bsdf(w) * math.Abs(w.Dot(c.Normal)) }
	pi := 0
	for i, l := range lobes {
		if l.sigma() < lobes[pi].sigma() {
			pi = i
		}
	}
	g := newGrid(lobes[pi], gridBulk, 8, gridNPhi)
	q := &integ{f: f, maxEvals: 4000000, maxDepth: 8}
	for i, l := range lobes {
		if i != pi && l.sigma() < 0.35 {
			q.hints = append(q.hints, hint{l.axis, l.sigma()})
		}
	}
	// BSDF*cos is not smooth across the equators of the lobes, across the surface plane (where Lambert and Phong
	// cut off and |cos| has its kink) and across the parallels normal.w = +-|normal.fixed| where Phong's flux
	// correction max(cos_in, cos_out) switches
	q.circles = lobeCircles(lobes)
	k := math.Abs(c.Normal.Dot(c.Fixed))
	q.circles = append(q.circles, circle{axis: c.Normal}, circle{axis: c.Normal, kappa: k}, circle{axis: c.Normal, kappa: -k})
	mass, errs := g.masses(q, cellTol)
	if q.bad {
		return fmt.Errorf("BSDF component %d is %g at direction %v (must be finite and non-negative)", c.Comp, q.badVal, q.badAt)
	}
	var total, qerr float64
	for i := range mass {
		total += mass[i]
		qerr += errs[i]
	}
	if qerr > maxQuadErr {
		o.Skip("quadrature-not-converged")
		return nil
	}
	if total > 1e-3 && (c.Mat.Kind == "joined" || !c.Mat.suiteValue()) {
		o.NonTrivial()
	}
	switch {
	case total < 1e-9:
		o.Label("zero-side")
	case total > 0.9:
		o.Label("flux:>0.9")
	case total > 0.5:
		o.Label("flux:0.5..0.9")
	default:
		o.Label("flux:<0.5")
	}
	// Phong loses energy where its lobe is clipped by the surface (documented in the library's tests), so only
	// the upper bound is a property; the slack is the stated quadrature tolerance plus the error estimate
	if total > 1+integralTol+qerr {
		return fmt.Errorf("mean of BSDF*cos over %s directions is %.5f (component %d; quadrature error <= %.1e): more flux leaves than arrives; lobes %s",
			c.Over, total, c.Comp, qerr, describe(lobes))
	}
	return nil
}

// ---------------------------------------------------------------------------
// (d)

type schlickCase struct {
	Index   float64   `json:"index"`
	Spec    kit.V3    `json:"spec"`
	Refr    kit.V3    `json:"refr"`
	Normal  kit.V3    `json:"normal"`
	Azimuth float64   `json:"azimuth"`
	Cos     []float64 `json:"cos"`  // cosines of the angles of incidence, decreasing (angles increasing), last one grazing
	Side    float64   `json:"side"` // +1: the fixed direction is on the side of the normal, -1: the other side
	Mode    string    `json:"mode"`
	N       int       `json:"n"` // samples per angle
	Seed    int64     `json:"seed"`
}

func schlickGen(t *rapid.T, n int) schlickCase {
	c := schlickCase{Index: indexGen(t, "index"), Spec: colour(t, "spec"), Refr: colour(t, "refr"),
		Normal: gen.Dir3(t, "normal").Unit(), Azimuth: gen.F(t, 0, 2*math.Pi, "azimuth"), Side: 1,
		Mode: rapid.SampledFrom([]string{"source", "dest"}).Draw(t, "mode"), N: n, Seed: int64(gen.Int(t, 1, 1<<40, "seed"))}
	if rapid.Bool().Draw(t, "side") {
		c.Side = -1
	}
	m := rapid.IntRange(3, 6).Draw(t, "angles")
	// strictly decreasing cosines by construction: stratified
	if rapid.IntRange(0, 3).Draw(t, "normal-incidence") == 0 {
		c.Cos = append(c.Cos, 1)
	}
	for i := 0; i < m; i++ {
		hi := 1 - float64(i)/float64(m)
		lo := 1 - (float64(i)+1)/float64(m)
		c.Cos = append(c.Cos, gen.F(t, lo+0.02/float64(m), hi-0.02/float64(m), fmt.Sprintf("cos%d", i)))
	}
	c.Cos = append(c.Cos, gen.LogF(t, 1e-6, 1e-3, "grazing"))
	return c
}

func checkSchlick(c schlickCase, o *kit.Obs) error {
	mat := Mat{Kind: "refract", Index: c.Index, Spec: c.Spec, Diff: c.Refr}
	e1, e2 := orthoBasis(c.Normal)
	tang := e1.Scale(math.Cos(c.Azimuth)).Add(e2.Scale(math.Sin(c.Azimuth)))
	if c.Index != 1.3 {
		o.NonTrivial()
	}
	o.Label("mode:" + c.Mode)
	if c.Index < 1 {
		o.Label("index<1")
	} else {
		o.Label("index>=1")
	}
	r := rand.New(rand.NewSource(c.Seed))
	prev := -1.0
	for i, cs := range c.Cos {
		fixed := c.Normal.Scale(c.Side * cs).Add(tang.Scale(math.Sqrt(math.Max(0, 1-cs*cs)))).Unit()
		s := Subject{Mat: mat, Mode: c.Mode, Normal: c.Normal, Fixed: fixed}
		cosInc := math.Abs(c.Normal.Dot(fixed))
		want := schlick(c.Index, cosInc)
		// reference geometry: SampleDest(normal, source) is the construction of SampleSource seen from the other
		// side of the surface (see lobesDest)
		nn := c.Normal
		if c.Mode == "dest" {
			nn = c.Normal.Scale(-1)
		}
		ls := s.build().lobes // [refract, mirror]
		_, tir, mg := snell(nn, fixed.Scale(-1), c.Index)
		if mg < 1e-9 {
			o.Skip("critical-angle")
			continue
		}
		d := s.build()
		refrAxis, mirAxis := ls[0].axis, ls[1].axis
		sep := angle(refrAxis, mirAxis)
		if !tir && sep < 5e-3 {
			o.Skip("delta-lobes-overlap")
			continue
		}
		f0, fb, frac, ok := capProbe(d.density, mirAxis, 1e-9)
		if !ok {
			o.Skip("delta-lobe-not-isolated")
			continue
		}
		mirMass := (f0 - fb) * frac
		ni := c.N
		var nm, nr int
		for k := 0; k < ni; k++ {
			w := d.sample(r)
			switch {
			case w.Sub(mirAxis).Norm() < 1e-7:
				nm++
			case w.Sub(refrAxis).Norm() < 1e-7:
				nr++
			default:
				return fmt.Errorf("angle %d (cos %.6g): sample %v is neither the mirror direction %v nor the refracted direction %v", i, cosInc, w, mirAxis, refrAxis)
			}
		}
		if tir {
			o.Label("tir")
			if math.Abs(mirMass-1) > 1e-6 {
				return fmt.Errorf("angle %d (cos %.6g, index %g): total internal reflection, but the density puts mass %.8f on the mirror direction, want 1", i, cosInc, c.Index, mirMass)
			}
			if nm != ni {
				return fmt.Errorf("angle %d (cos %.6g): total internal reflection, but only %d of %d samples are the mirror direction", i, cosInc, nm, ni)
			}
			prev = 1
			continue
		}
		o.Label("split")
		g0, gb, gfrac, ok := capProbe(d.density, refrAxis, 1e-9)
		if !ok {
			o.Skip("delta-lobe-not-isolated")
			continue
		}
		refrMass := (g0 - gb) * gfrac
		// the density side: lobe masses are the Schlick reflectance and its complement (tolerance: bisection of the cap edge)
		if math.Abs(mirMass-want) > 1e-6 || math.Abs(refrMass-(1-want)) > 1e-6 {
			return fmt.Errorf("angle %d: index %g, cos of incidence %.6g: density puts %.8f on the mirror lobe and %.8f on the refracted lobe; Schlick R0+(1-R0)(1-cos)^5 = %.8f",
				i, c.Index, cosInc, mirMass, refrMass, want)
		}
		// the sampler side: exact binomial tail bound
		if e := binomKL(nm, ni, want); e > klAlarm {
			return fmt.Errorf("angle %d: index %g, cos of incidence %.6g: %d of %d samples are mirrored (%.5f), Schlick reflectance is %.5f (Chernoff exponent %.1f)",
				i, c.Index, cosInc, nm, ni, float64(nm)/float64(ni), want, e)
		}
		if mirMass < prev-1e-6 {
			return fmt.Errorf("angle %d: reflected share %.8f is smaller than %.8f at the previous, smaller angle of incidence", i, mirMass, prev)
		}
		prev = mirMass
		if cosInc < 1e-3 && mirMass < 1-5*cosInc-1e-6 {
			return fmt.Errorf("grazing incidence (cos %.3g): reflected share %.8f does not approach 1", cosInc, mirMass)
		}
	}
	return nil
}
