package c19

// Henyey-Greenstein scattering at the forward / backward limit (|g| within 1e-2 .. 1e-8 of 1).  The lobe is far
// too narrow for the generic quadrature, but its closed form is known: the reported density at the lobe's axis
// determines the asymmetry the density function really uses, that asymmetry determines the cone that holds half of
// the probability, and half of the samples must fall into that cone.

import (
	"fmt"
	"math"
	"math/rand"

	"github.com/unixpickle/model3d/model3d"
	"github.com/unixpickle/model3d/render3d"
	"pgregory.net/rapid"
	"verifharness/gen"
	"verifharness/kit"
	"verifharness/m3"
)

type hgLimitCase struct {
	Sign   float64 `json:"sign"`
	OneMin float64 `json:"one_minus_g"`
	Dest   kit.V3  `json:"dest"`
	Seed   int64   `json:"seed"`
}

func genHGLimit(t *rapid.T) hgLimitCase {
	c := hgLimitCase{Sign: 1, OneMin: gen.LogF(t, 1e-8, 1e-2, "one_minus_g"), Dest: gen.Dir3(t, "dest").Unit(), Seed: int64(rapid.IntRange(1, 1<<30).Draw(t, "seed"))}
	if rapid.Bool().Draw(t, "backward") {
		c.Sign = -1
	}
	return c
}

func checkHGLimit(c hgLimitCase, o *kit.Obs) error {
	g := c.Sign * (1 - c.OneMin)
	mat := &render3d.HGMaterial{G: g, ScatterColor: render3d.NewColor(1), IgnoreNormals: true}
	normal := model3d.Z(1)
	dest := m3.C3(c.Dest)
	// the lobe's axis for the source direction: scattering deviates the travelling direction by the sampled angle, so
	// the density peaks for source = sign(g) * dest (same convention as the generic clauses: found by evaluation)
	axis := c.Dest.Scale(c.Sign)
	peak := mat.SourceDensity(normal, m3.C3(axis), dest)
	anti := mat.SourceDensity(normal, m3.C3(axis.Scale(-1)), dest)
	if !(peak > anti) {
		axis, peak = axis.Scale(-1), anti
	}
	if !(peak > 0) || math.IsInf(peak, 0) || math.IsNaN(peak) {
		return fmt.Errorf("HGMaterial(G=%v): SourceDensity on the lobe's axis is %v", g, peak)
	}
	// densities are relative to... (1+e)/(4 pi (1-e)^2) * 4 pi k, k = 1 (per steradian) or 1/(4 pi): both read off
	// by comparing with the density at 90 degrees, whose ratio to the peak depends on e only
	perp := kit.V3{1, 0, 0}
	if math.Abs(axis[0]) > 0.7 {
		perp = kit.V3{0, 1, 0}
	}
	perp = perp.Sub(axis.Scale(perp.Dot(axis))).Unit()
	side := mat.SourceDensity(normal, m3.C3(perp), dest)
	if !(side > 0) {
		o.Skip("density underflows at 90 degrees")
		return nil
	}
	// peak/side = ((1+e^2)/(1-e)^2)^1.5 -> solve for e in (0, 1) by bisection
	ratio := math.Pow(peak/side, 2.0/3)
	lo, hi := 0.0, 1.0
	for i := 0; i < 200; i++ {
		e := (lo + hi) / 2
		if (1+e*e)/((1-e)*(1-e)) < ratio {
			lo = e
		} else {
			hi = e
		}
	}
	e := (lo + hi) / 2
	o.Labelf("one-minus-g:1e%d", int(math.Floor(math.Log10(c.OneMin))))
	if 1-e < 1e-15 {
		o.Skip("effective asymmetry not resolvable")
		return nil
	}
	// P(angle <= theta) for HG(e): (1-e^2)/(2e) * (1/(1-e) - 1/sqrt(1+e^2-2e cos)); median: P = 1/2
	s := 1/(1-e) - e/(1-e*e)
	cosMed := (1 + e*e - 1/(s*s)) / (2 * e)
	const n = 4000
	rng := rand.New(rand.NewSource(c.Seed))
	inside := 0
	for i := 0; i < n; i++ {
		w := m3.V3(mat.SampleSource(rng, normal, dest)).Unit()
		if w.Dot(axis) >= cosMed {
			inside++
		}
	}
	o.NonTrivial()
	// binomial(n, 1/2): sd = sqrt(n)/2 = 31.6; alarm beyond 7 sd and a shift of at least 10 % of the samples
	if d := math.Abs(float64(inside) - n/2); d > 7*math.Sqrt(n)/2 && d > 0.1*n {
		return fmt.Errorf("HGMaterial(G=%v): the reported density is that of asymmetry %.9g (1-e = %.3g), whose half-probability cone has cos = 1 - %.3g; %d of %d samples fall into it, expected about half", g, e, 1-e, 1-cosMed, inside, n)
	}
	return nil
}
