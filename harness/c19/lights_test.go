package c19

// Clause (e): area lights sample points of their own surface, with the outward normal there, uniformly by
// emitted power, and report emission * area as their total emission.

import (
	"fmt"
	"math"
	"math/rand"

	"github.com/unixpickle/model3d/model3d"
	"github.com/unixpickle/model3d/render3d"
	"pgregory.net/rapid"
	"verifharness/gen"
	"verifharness/kit"
	"verifharness/m3"
)

type Light struct {
	Kind     string      `json:"kind"` // sphere | cylinder | mesh | joined
	Shape    *gen.Shape3 `json:"shape,omitempty"`
	Tris     []kit.Tri   `json:"tris,omitempty"`
	Emission kit.V3      `json:"emission"`
	Parts    []Light     `json:"parts,omitempty"`
}

func (l Light) Build() render3d.AreaLight {
	switch l.Kind {
	case "sphere":
		return render3d.NewSphereAreaLight(&model3d.Sphere{Center: m3.C3(l.Shape.A), Radius: l.Shape.R}, m3.C3(l.Emission))
	case "cylinder":
		return render3d.NewCylinderAreaLight(&model3d.Cylinder{P1: m3.C3(l.Shape.A), P2: m3.C3(l.Shape.B), Radius: l.Shape.R}, m3.C3(l.Emission))
	case "mesh":
		return render3d.NewMeshAreaLight(m3.MeshFromTris(l.Tris), m3.C3(l.Emission))
	case "joined":
		var ps []render3d.AreaLight
		for _, p := range l.Parts {
			ps = append(ps, p.Build())
		}
		return render3d.JoinAreaLights(ps...)
	}
	panic("c19: unknown light kind " + l.Kind)
}

func (l Light) leaves(out *[]Light) {
	if l.Kind == "joined" {
		for _, p := range l.Parts {
			p.leaves(out)
		}
		return
	}
	*out = append(*out, l)
}

func (l Light) area() float64 {
	switch l.Kind {
	case "sphere":
		return 4 * math.Pi * l.Shape.R * l.Shape.R
	case "cylinder":
		h := l.Shape.A.Dist(l.Shape.B)
		return 2*math.Pi*l.Shape.R*l.Shape.R + 2*math.Pi*l.Shape.R*h
	case "mesh":
		return kit.SurfaceArea(l.Tris)
	}
	panic("area of " + l.Kind)
}

func (l Light) scale() float64 {
	switch l.Kind {
	case "sphere", "cylinder":
		return l.Shape.Size() + l.Shape.Centre().Norm()
	}
	var s float64
	for _, t := range l.Tris {
		for _, v := range t {
			s = math.Max(s, v.Norm())
		}
	}
	return s
}

// cells: the sub-division of a leaf into cells of known area share; parts: coarser groups (cylinder: two
// caps and the shaft; mesh: triangles).
func (l Light) ncells() int {
	switch l.Kind {
	case "sphere":
		return 16
	case "cylinder":
		return 32
	}
	return 4 * len(l.Tris)
}

func (l Light) nparts() int {
	switch l.Kind {
	case "sphere":
		return 1
	case "cylinder":
		return 3
	}
	return len(l.Tris)
}

// cellShare returns the fraction of the leaf's area in each cell and the part every cell belongs to.
func (l Light) cellShare() (share []float64, part []int) {
	switch l.Kind {
	case "sphere":
		for i := 0; i < 16; i++ {
			share = append(share, 1.0/16)
			part = append(part, 0)
		}
	case "cylinder":
		h := l.Shape.A.Dist(l.Shape.B)
		capA, shaft := math.Pi*l.Shape.R*l.Shape.R, 2*math.Pi*l.Shape.R*h
		tot := 2*capA + shaft
		for i := 0; i < 8; i++ {
			share = append(share, capA/8/tot)
			part = append(part, 0)
		}
		for i := 0; i < 8; i++ {
			share = append(share, capA/8/tot)
			part = append(part, 1)
		}
		for i := 0; i < 16; i++ {
			share = append(share, shaft/16/tot)
			part = append(part, 2)
		}
	default:
		tot := kit.SurfaceArea(l.Tris)
		for i, t := range l.Tris {
			for k := 0; k < 4; k++ {
				share = append(share, t.Area()/4/tot)
				part = append(part, i)
			}
		}
	}
	return
}

func quadrant(x, y float64) int {
	phi := math.Atan2(y, x)
	if phi < 0 {
		phi += 2 * math.Pi
	}
	k := int(phi / (math.Pi / 2))
	if k > 3 {
		k = 3
	}
	return k
}

func clampInt(i, lo, hi int) int {
	if i < lo {
		return lo
	}
	if i > hi {
		return hi
	}
	return i
}

// locate checks that p lies on the leaf's surface and that nrm is the outward normal there; returns the cell.
func (l Light) locate(p, nrm kit.V3) (cell int, err error) {
	tol := 1e-9 * l.scale()
	if math.Abs(nrm.Norm()-1) > 1e-9 {
		return 0, fmt.Errorf("normal %v is not a unit vector (norm %.12g)", nrm, nrm.Norm())
	}
	normalOK := func(want ...kit.V3) error {
		for _, w := range want {
			if nrm.Sub(w).Norm() <= 1e-7 {
				return nil
			}
		}
		return fmt.Errorf("normal %v at the sampled point %v is not the outward normal %v of the %s there", nrm, p, want, l.Kind)
	}
	switch l.Kind {
	case "sphere":
		ref := l.Shape.RefSDF(p)
		if math.Abs(ref.SDF) > tol {
			return 0, fmt.Errorf("sampled point %v is at distance %.3g from the sphere (centre %v, radius %g); tolerance %.1e", p, ref.SDF, l.Shape.A, l.Shape.R, tol)
		}
		d := p.Sub(l.Shape.A).Unit()
		if err := normalOK(d); err != nil {
			return 0, err
		}
		return clampInt(int((d[2]+1)*2), 0, 3)*4 + quadrant(d[0], d[1]), nil
	case "cylinder":
		ref := l.Shape.RefSDF(p)
		if math.Abs(ref.SDF) > tol {
			return 0, fmt.Errorf("sampled point %v is at distance %.3g from the cylinder's surface (p1 %v, p2 %v, radius %g); tolerance %.1e", p, -ref.SDF, l.Shape.A, l.Shape.B, l.Shape.R, tol)
		}
		h := l.Shape.A.Dist(l.Shape.B)
		u := l.Shape.B.Sub(l.Shape.A).Scale(1 / h)
		e1, e2 := orthoBasis(u)
		d := p.Sub(l.Shape.A)
		t := d.Dot(u)
		rad := d.Sub(u.Scale(t))
		rho := rad.Norm()
		var wants []kit.V3
		part := -1
		if math.Abs(rho-l.Shape.R) <= 10*tol {
			wants, part = append(wants, rad.Scale(1/rho)), 2
		}
		if math.Abs(t) <= 10*tol {
			wants, part = append(wants, u.Scale(-1)), 0
		}
		if math.Abs(t-h) <= 10*tol {
			wants, part = append(wants, u), 1
		}
		if err := normalOK(wants...); err != nil {
			return 0, err
		}
		q := quadrant(rad.Dot(e1), rad.Dot(e2))
		switch part {
		case 0, 1:
			ring := 0
			if rho*rho > l.Shape.R*l.Shape.R/2 {
				ring = 1
			}
			return part*8 + ring*4 + q, nil
		default:
			return 16 + clampInt(int(4*t/h), 0, 3)*4 + q, nil
		}
	}
	// mesh
	best, bi := kit.MeshDist(l.Tris, p)
	if best > tol {
		return 0, fmt.Errorf("sampled point %v is at distance %.3g from the mesh (nearest triangle %d); tolerance %.1e", p, best, bi, tol)
	}
	var wants []kit.V3
	for i, t := range l.Tris {
		if d, _ := kit.PointTriDist(p, t); d <= tol {
			wants = append(wants, t.Normal().Unit())
			if nrm.Sub(t.Normal().Unit()).Norm() <= 1e-7 {
				bi = i // among the triangles through the point, the one whose normal was reported
			}
		}
	}
	if err := normalOK(wants...); err != nil {
		return 0, err
	}
	t := l.Tris[bi]
	// barycentric coordinates by sub-areas
	n := t.Normal()
	a2 := n.Dot(n)
	b0 := t[1].Sub(p).Cross(t[2].Sub(p)).Dot(n) / a2
	b1 := t[2].Sub(p).Cross(t[0].Sub(p)).Dot(n) / a2
	b2 := 1 - b0 - b1
	sub := 3
	switch {
	case b0 > 0.5:
		sub = 0
	case b1 > 0.5:
		sub = 1
	case b2 > 0.5:
		sub = 2
	}
	return bi*4 + sub, nil
}

type lightCase struct {
	L    Light `json:"light"`
	N    int   `json:"n"`
	Seed int64 `json:"seed"`
}

func emissionGen(t *rapid.T, label string) kit.V3 {
	e := kit.V3{gen.LogF(t, 0.05, 20, label+".r"), gen.LogF(t, 0.05, 20, label+".g"), gen.LogF(t, 0.05, 20, label+".b")}
	if k := rapid.IntRange(0, 11).Draw(t, label+".zero"); k < 3 {
		e[k] = 0
	}
	return e
}

func goodTri(t kit.Tri, scale float64) bool {
	// general position by construction: no sliver or tiny triangles
	l := math.Max(t[0].Dist(t[1]), math.Max(t[1].Dist(t[2]), t[2].Dist(t[0])))
	return t.Area() > 0.02*l*l && l > 1e-3*scale
}

func meshGen(t *rapid.T, label string) []kit.Tri {
	size := gen.LogF(t, 0.05, 20, label+".size")
	off := gen.Vec3(t, 3, label+".offset")
	lin := func(v kit.V3) kit.V3 { return v.Scale(size).Add(off) }
	switch rapid.SampledFrom([]string{"tetra", "box", "soup", "soup"}).Draw(t, label+".shape") {
	case "tetra":
		for try := 0; try < 20; try++ {
			var v [4]kit.V3
			for i := range v {
				v[i] = lin(gen.Vec3(t, 1, fmt.Sprintf("%s.v%d", label, i)))
			}
			faces := [][3]int{{0, 1, 2}, {0, 3, 1}, {1, 3, 2}, {2, 3, 0}}
			var tris []kit.Tri
			ok := true
			for _, f := range faces {
				tr := kit.Tri{v[f[0]], v[f[1]], v[f[2]]}
				ok = ok && goodTri(tr, size)
				tris = append(tris, tr)
			}
			if !ok {
				continue
			}
			if kit.SignedVolume(tris) < 0 {
				for i := range tris {
					tris[i][1], tris[i][2] = tris[i][2], tris[i][1]
				}
			}
			if math.Abs(kit.SignedVolume(tris)) < 1e-3*size*size*size {
				continue
			}
			return tris
		}
		fallthrough
	case "box":
		// a sheared box: the images of the cube's corners under a linear map with positive determinant
		ax := gen.Dir3(t, label+".ax").Unit()
		b1, b2 := orthoBasis(ax)
		sx, sy, sz := gen.LogF(t, 0.2, 1, label+".sx"), gen.LogF(t, 0.2, 1, label+".sy"), gen.LogF(t, 0.2, 1, label+".sz")
		sh := gen.F(t, -0.5, 0.5, label+".shear")
		ex, ey, ez := ax.Scale(sx), b1.Scale(sy).Add(ax.Scale(sh*sy)), b2.Scale(sz)
		corner := func(i, j, k float64) kit.V3 { return lin(ex.Scale(i).Add(ey.Scale(j)).Add(ez.Scale(k))) }
		quad := func(a, b, c, d kit.V3) []kit.Tri { return []kit.Tri{{a, b, c}, {a, c, d}} }
		var tris []kit.Tri
		tris = append(tris, quad(corner(0, 0, 0), corner(0, 1, 0), corner(1, 1, 0), corner(1, 0, 0))...) // bottom (k=0), outward -ez
		tris = append(tris, quad(corner(0, 0, 1), corner(1, 0, 1), corner(1, 1, 1), corner(0, 1, 1))...) // top
		tris = append(tris, quad(corner(0, 0, 0), corner(1, 0, 0), corner(1, 0, 1), corner(0, 0, 1))...) // j=0
		tris = append(tris, quad(corner(0, 1, 0), corner(0, 1, 1), corner(1, 1, 1), corner(1, 1, 0))...) // j=1
		tris = append(tris, quad(corner(0, 0, 0), corner(0, 0, 1), corner(0, 1, 1), corner(0, 1, 0))...) // i=0
		tris = append(tris, quad(corner(1, 0, 0), corner(1, 1, 0), corner(1, 1, 1), corner(1, 0, 1))...) // i=1
		if kit.SignedVolume(tris) < 0 {
			for i := range tris {
				tris[i][1], tris[i][2] = tris[i][2], tris[i][1]
			}
		}
		return tris
	}
	// soup: triangles whose areas span orders of magnitude
	n := rapid.IntRange(1, 8).Draw(t, label+".ntris")
	var tris []kit.Tri
	for i := 0; i < n; i++ {
		c := gen.Vec3(t, 1, fmt.Sprintf("%s.c%d", label, i))
		s := gen.LogF(t, 0.03, 1, fmt.Sprintf("%s.s%d", label, i))
		tr := kit.Tri{{0.3, -0.2, 0.1}, {-0.25, 0.3, 0}, {0.05, 0.1, 0.4}} // fallback shape
		for try := 0; try < 20; try++ {
			cand := kit.Tri{gen.Vec3(t, 1, fmt.Sprintf("%s.t%d.a", label, i)), gen.Vec3(t, 1, fmt.Sprintf("%s.t%d.b", label, i)), gen.Vec3(t, 1, fmt.Sprintf("%s.t%d.c", label, i))}
			if goodTri(cand, 1) {
				tr = cand
				break
			}
		}
		for k := range tr {
			tr[k] = lin(c.Add(tr[k].Scale(s)))
		}
		tris = append(tris, tr)
	}
	return tris
}

func lightGen(t *rapid.T, depth int, kinds []string, label string) Light {
	kind := rapid.SampledFrom(kinds).Draw(t, label+".kind")
	l := Light{Kind: kind, Emission: emissionGen(t, label+".emission")}
	switch kind {
	case "sphere", "cylinder":
		s := gen.Shape3Gen(t, []string{kind}, gen.LogF(t, 0.05, 20, label+".size"), 30, label+".shape")
		if rapid.IntRange(0, 7).Draw(t, label+".unit") == 0 {
			// the radius the repository's own scene uses
			if kind == "sphere" {
				s.R = 1
			} else {
				s.B = s.A.Add(s.B.Sub(s.A).Unit().Scale(s.A.Dist(s.B) / s.R))
				s.R = 1
			}
		}
		off := gen.Vec3(t, 5, label+".offset")
		s.A, s.B = s.A.Add(off), s.B.Add(off)
		if kind == "sphere" {
			s.B = kit.V3{}
		}
		l.Shape = &s
	case "mesh":
		l.Tris = meshGen(t, label+".mesh")
	case "joined":
		n := rapid.IntRange(1, 5).Draw(t, label+".n")
		sub := []string{"sphere", "cylinder", "mesh"}
		if depth > 0 {
			sub = append(sub, "joined")
		}
		for i := 0; i < n; i++ {
			l.Parts = append(l.Parts, lightGen(t, depth-1, sub, fmt.Sprintf("%s.part%d", label, i)))
		}
		// a member that is switched off (emission zero) stays in the list, anywhere but first: it is never chosen
		// and the others keep their shares
		if n >= 2 && rapid.IntRange(0, 2).Draw(t, label+".dark") == 0 {
			if k := rapid.IntRange(1, n-1).Draw(t, label+".darkidx"); l.Parts[k].Kind != "joined" {
				l.Parts[k].Emission = kit.V3{}
			}
		}
		l.Emission = kit.V3{}
	}
	return l
}

func checkLight(c lightCase, o *kit.Obs) error {
	var leaves []Light
	c.L.leaves(&leaves)
	light := c.L.Build()
	o.Label("light:" + c.L.Kind)
	nonUnit := false
	for _, l := range leaves {
		if c.L.Kind == "joined" {
			o.Label("leaf:" + l.Kind)
		}
		if l.Kind == "mesh" || (l.Shape != nil && l.Shape.R != 1) {
			nonUnit = true
		}
	}
	if nonUnit {
		o.NonTrivial()
	}
	// reference powers and cells
	var powers []float64
	var total float64
	for _, l := range leaves {
		p := (l.Emission[0] + l.Emission[1] + l.Emission[2]) * l.area()
		powers = append(powers, p)
		total += p
	}
	if got := light.TotalEmission(); math.Abs(got-total) > 1e-9*total {
		return fmt.Errorf("TotalEmission() = %.12g, want the sum over the parts of (r+g+b) * area = %.12g", got, total)
	}
	var cellExp []float64 // probabilities
	var cellLeaf, cellPart, base []int
	nparts := 0
	var partBase []int
	for li, l := range leaves {
		base = append(base, len(cellExp))
		partBase = append(partBase, nparts)
		share, part := l.cellShare()
		for k := range share {
			cellExp = append(cellExp, powers[li]/total*share[k])
			cellLeaf = append(cellLeaf, li)
			cellPart = append(cellPart, nparts+part[k])
		}
		nparts += l.nparts()
	}
	partProb := make([]float64, nparts)
	for i, p := range cellExp {
		partProb[cellPart[i]] += p
	}
	obs := make([]int, len(cellExp))
	partObs := make([]int, nparts)
	r := rand.New(rand.NewSource(c.Seed))
	for i := 0; i < c.N; i++ {
		pc, nc, ec := light.SampleLight(r)
		p, nrm, em := m3.V3(pc), m3.V3(nc), m3.V3(ec)
		if !p.Finite() || !nrm.Finite() {
			return fmt.Errorf("sample %d: point %v, normal %v", i, p, nrm)
		}
		// which leaf: its emission is reported; among equal emissions the nearest surface decides
		li := -1
		var firstErr error
		for k, l := range leaves {
			if l.Emission != em {
				continue
			}
			cell, err := l.locate(p, nrm)
			if err == nil {
				li = k
				obs[base[k]+cell]++
				partObs[cellPart[base[k]+cell]]++
				break
			}
			if firstErr == nil {
				firstErr = err
			}
		}
		if li < 0 {
			if firstErr != nil {
				return fmt.Errorf("sample %d: %w", i, firstErr)
			}
			return fmt.Errorf("sample %d: reported emission %v is not the emission of any part of the light", i, em)
		}
	}
	// part frequencies (leaf x {caps, shaft} / triangles): exact binomial bound
	for k, p := range partProb {
		if e := binomKL(partObs[k], c.N, p); e > klAlarm {
			return fmt.Errorf("part %d of the light (leaf %d, a %s) received %d of %d samples; by emitted power it should receive a share of %.5g (%.1f samples; Chernoff exponent %.1f)",
				k, leafOfPart(partBase, k), leaves[leafOfPart(partBase, k)].Kind, partObs[k], c.N, p, p*float64(c.N), e)
		}
	}
	// uniformity within the parts: chi-square over equal-area cells
	exp := make([]float64, len(cellExp))
	for i, p := range cellExp {
		exp[i] = p * float64(c.N)
	}
	res := chiSquare(obs, exp, c.N, minExpected)
	if res.k > 1 && res.z > zAlarm && res.effect > effectFloor {
		wc := res.worst
		return fmt.Errorf("samples are not uniform by emitted power: chi-square %.1f on %d cells (z = %.1f); worst cell %d of leaf %d (%s): observed %d, expected %.1f",
			res.x2, res.k, res.z, wc-base[cellLeaf[wc]], cellLeaf[wc], leaves[cellLeaf[wc]].Kind, obs[wc], exp[wc])
	}
	return nil
}

func leafOfPart(partBase []int, k int) int {
	li := 0
	for i, b := range partBase {
		if b <= k {
			li = i
		}
	}
	return li
}
