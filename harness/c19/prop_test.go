package c19

import (
	"runtime"
	"testing"

	"pgregory.net/rapid"
	"verifharness/gen"
	"verifharness/kit"
)

const rule = "materials (Lambert, Phong alpha 0..1e4 with and without diffuse/flux correction, Henyey-Greenstein g in (-0.99, 0.99), refraction index 0.4..2.5 with and without Fresnel reflection, joined mixtures, nested once), Phong/Sphere focus points (active and falling back) and sphere/cylinder/mesh/joined area lights with random parameters, unit normals and fixed directions (generic, grazing, normal incidence, both sides), for source and destination sampling. Non-trivial: some parameter away from the values the repository's tests use (alpha not in {0, .5, 2, 1e5}, g not in {0, +-.5, +-.9}, index != 1.3, radius != 1), or a joined material, a focus point that takes over, destination sampling, or a mesh/joined light. Distinct: hash of the JSON case."

func sampleCount(quick, thorough int) int {
	if kit.Tier() == "thorough" {
		return thorough
	}
	return quick
}

func statGen(t *rapid.T) statCase {
	return statCase{S: subjectGen(t, allMatKinds, true), N: sampleCount(50000, 200000), Seed: int64(gen.Int(t, 1, 1<<40, "seed"))}
}

func TestProp(t *testing.T) {
	runtime.GOMAXPROCS(2)
	kit.Run(t, "C19", rule,
		kit.Clause[Subject]{Name: "C19/density/integrates-to-one", Quick: 2400, Thorough: 60000,
			Gen: func(t *rapid.T) Subject { return subjectGen(t, allMatKinds, true) }, Check: checkIntegral},
		kit.Clause[statCase]{Name: "C19/sampler/matches-density", Quick: 800, Thorough: 8000, Gen: statGen, Check: checkSampler},
		kit.Clause[hgLimitCase]{Name: "C19/hg/forward-limit", Quick: 300, Thorough: 6000, Gen: genHGLimit, Check: checkHGLimit},
		kit.Clause[energyCase]{Name: "C19/bsdf/energy-bound", Quick: 1600, Thorough: 40000, Gen: energyGen, Check: checkEnergy},
		kit.Clause[schlickCase]{Name: "C19/refract/schlick-split", Quick: 500, Thorough: 8000,
			Gen: func(t *rapid.T) schlickCase { return schlickGen(t, sampleCount(8000, 30000)) }, Check: checkSchlick},
		kit.Clause[lightCase]{Name: "C19/light/surface-normal-power", Quick: 500, Thorough: 6000,
			Gen: func(t *rapid.T) lightCase {
				return lightCase{L: lightGen(t, 1, []string{"sphere", "cylinder", "cylinder", "mesh", "mesh", "joined", "joined"}, "light"),
					N: sampleCount(20000, 60000), Seed: int64(gen.Int(t, 1, 1<<40, "seed"))}
			}, Check: checkLight},
	)
}
