package c19

// Numerical machinery of the C19 oracle: lobe-aligned frames, a warped polar
// coordinate that flattens the reference lobe, adaptive Gauss-Legendre cell
// integration that is split exactly along the known loci of non-smoothness
// (lobe equators, cone rims) with an error estimate, and the statistics
// (chi-square with a Wilson-Hilferty tail, Chernoff bounds for binomial counts).
// selftest_test.go calibrates all of it against closed forms.
//
// Nothing here calls the library; the integrand is a black-box function.

import (
	"math"
	"sort"

	"verifharness/kit"
)

// ---------------------------------------------------------------------------
// frames

func orthoBasis(u kit.V3) (kit.V3, kit.V3) {
	a := kit.V3{1, 0, 0}
	if math.Abs(u[0]) > 0.7 {
		a = kit.V3{0, 1, 0}
	}
	a = a.Sub(u.Scale(a.Dot(u))).Unit()
	return a, u.Cross(a)
}

type frame struct{ a, e1, e2 kit.V3 }

func newFrame(axis kit.V3) frame {
	a := axis.Unit()
	e1, e2 := orthoBasis(a)
	return frame{a, e1, e2}
}

// dir returns the unit vector with 1-cos(polar angle) = y and azimuth phi.
func (f frame) dir(y, phi float64) kit.V3 {
	if y < 0 {
		y = 0
	}
	if y > 2 {
		y = 2
	}
	s := math.Sqrt(y * (2 - y))
	return f.a.Scale(1 - y).Add(f.e1.Scale(s * math.Cos(phi))).Add(f.e2.Scale(s * math.Sin(phi)))
}

// coords returns y = 1-cos(angle to the axis), computed without cancellation as
// |w-a|^2/2, and the azimuth in [0, 2pi).
func (f frame) coords(w kit.V3) (y, phi float64) {
	d := w.Sub(f.a)
	y = d.Dot(d) / 2
	phi = math.Atan2(w.Dot(f.e2), w.Dot(f.e1))
	if phi < 0 {
		phi += 2 * math.Pi
	}
	if phi >= 2*math.Pi {
		phi = 0
	}
	return
}

func angle(a, b kit.V3) float64 {
	// accurate for small and large angles
	return 2 * math.Atan2(a.Sub(b).Norm(), a.Add(b).Norm())
}

// ---------------------------------------------------------------------------
// reference lobes (closed forms re-derived here; used for the choice of frame,
// bin edges, refinement hints and the position of delta lobes - never for the
// expected counts, which come from the density under test)

type lobe struct {
	kind   string  // "pow": density 2(alpha+1)cos^alpha on the hemisphere; "hg"; "cap": constant on cos >= minCos; "delta"
	axis   kit.V3  // unit
	alpha  float64 // pow
	g      float64 // hg, normalised to g >= 0 (axis flipped for negative g)
	minCos float64 // cap
	w      float64 // mixture weight
	tag    string  // "mirror" / "refract" for delta lobes
}

// sigma is a rough angular width of the lobe (radians).
func (l lobe) sigma() float64 {
	switch l.kind {
	case "pow":
		return 1 / math.Sqrt(l.alpha+1)
	case "hg":
		return 1 - l.g
	case "cap":
		return math.Sqrt(2 * (1 - l.minCos))
	}
	return 0
}

// ---------------------------------------------------------------------------
// warp: v = M(y) with M the CDF (in y = 1-cos) of a blend of the primary reference
// lobe and the uniform distribution on the sphere.  Any smooth monotone warp is
// sound; this one makes a density shaped like the primary lobe nearly constant
// in (v, phi) and keeps the Jacobian bounded for everything else.

type warp struct {
	kind  string    // "pow", "hg", "cap", "uniform"
	alpha []float64 // pow: the exponent of the primary followed by a geometric ladder of broader lobes
	aw    []float64 // pow: their weights (sum 1)
	g     float64
	ymax  float64
	wu    float64 // share of the uniform component
}

// newWarp builds the warp for a primary lobe.  bulk, ladder and uni are the numbers of polar bins given to
// the primary lobe, to each rung of the ladder, and to the uniform component.
//
// The ladder matters for sharp cos^alpha lobes: without it the tail of the lobe (a fraction ~1/alpha of its
// mass) lands in a sliver of v just after the lobe's own range, too narrow for any quadrature node to see
// (measured: 0.1-0.5% of the mass went missing, undetected by the error estimate).  With rungs alpha/4,
// alpha/16, ... every decay happens over a v range comparable to a bin.
func newWarp(l lobe, bulk, uni int) (w warp, bins int) {
	w = warp{kind: l.kind, g: l.g, ymax: 1 - l.minCos}
	if l.kind == "hg" && l.g < 1e-3 {
		w.kind = "uniform"
	}
	if l.kind == "delta" || l.kind == "" {
		w.kind = "uniform"
	}
	rungs := 0
	if w.kind == "pow" {
		w.alpha = []float64{l.alpha}
		for a := l.alpha / 4; a > 1.5; a /= 4 {
			w.alpha = append(w.alpha, a)
			rungs++
		}
	}
	bins = bulk + rungs + uni
	if w.kind == "uniform" {
		return w, bins
	}
	w.wu = float64(uni) / float64(bins)
	if w.kind == "pow" {
		w.aw = []float64{float64(bulk) / float64(bulk+rungs)}
		for i := 0; i < rungs; i++ {
			w.aw = append(w.aw, 1/float64(bulk+rungs))
		}
	}
	return w, bins
}

func (w warp) cdfP(y float64) float64 {
	switch w.kind {
	case "pow":
		if y >= 1 {
			return 1
		}
		var s float64
		l := math.Log1p(-y)
		for i, a := range w.alpha {
			s += w.aw[i] * -math.Expm1((a+1)*l)
		}
		return s
	case "hg":
		g := w.g
		d := (1-g)*(1-g) + 2*g*y
		return 1 - (1-g*g)/(2*g)*(1/math.Sqrt(d)-1/(1+g))
	case "cap":
		if y >= w.ymax {
			return 1
		}
		return y / w.ymax
	}
	return y / 2
}

func (w warp) pdfP(y float64) float64 {
	switch w.kind {
	case "pow":
		if y >= 1 {
			return 0
		}
		var s float64
		l := math.Log1p(-y)
		for i, a := range w.alpha {
			if a == 0 {
				s += w.aw[i]
			} else {
				s += w.aw[i] * (a + 1) * math.Exp(a*l)
			}
		}
		return s
	case "hg":
		g := w.g
		d := (1-g)*(1-g) + 2*g*y
		return 0.5 * (1 - g*g) / (d * math.Sqrt(d))
	case "cap":
		if y >= w.ymax {
			return 0
		}
		return 1 / w.ymax
	}
	return 0.5
}

// support returns the y beyond which the primary lobe vanishes (0: none).
func (w warp) support() float64 {
	switch w.kind {
	case "pow":
		return 1
	case "cap":
		return w.ymax
	}
	return 0
}

func (w warp) M(y float64) float64 {
	if w.kind == "uniform" {
		return y / 2
	}
	return (1-w.wu)*w.cdfP(y) + w.wu*y/2
}
func (w warp) m(y float64) float64 {
	if w.kind == "uniform" {
		return 0.5
	}
	return (1-w.wu)*w.pdfP(y) + w.wu/2
}

// inv solves M(y) = v on [0, 2] (safeguarded Newton; M is continuous and strictly increasing).
func (w warp) inv(v float64) float64 {
	if v <= 0 {
		return 0
	}
	if v >= 1 {
		return 2
	}
	lo, hi := 0.0, 2.0
	y := 1.0
	if s := w.support(); s > 0 {
		// start inside the support of the primary when the target is there
		if vs := w.M(s); v < vs {
			hi = s
			y = s / 2
		} else {
			lo = s
			y = (s + 2) / 2
		}
	}
	for i := 0; i < 200; i++ {
		f := w.M(y) - v
		if f > 0 {
			hi = y
		} else {
			lo = y
		}
		if math.Abs(f) < 4e-16 || hi-lo <= 1e-17+1e-15*lo {
			break
		}
		d := w.m(y)
		ny := y - f/d
		if !(ny > lo && ny < hi) || i%8 == 7 {
			ny = (lo + hi) / 2
			if lo > 0 && hi/lo > 4 {
				ny = math.Sqrt(lo * hi) // geometric bisection reaches tiny y quickly
			} else if lo == 0 && hi > 1e-300 && i%2 == 1 {
				ny = hi * 1e-3
			}
		}
		y = ny
	}
	return y
}

// ---------------------------------------------------------------------------
// adaptive integration of (1/4pi) * integral of f over a (v, phi) rectangle
//
// The integrand is a black box, but it is only piecewise smooth: a cos^alpha lobe is cut off at its equator
// (with a one-sided x^alpha behaviour that is practically a step for small alpha), a cone lobe at its rim.
// These loci are circles {w : axis.w = kappa} on the sphere, known from the reference lobes.  A tensor
// Gauss rule (and any error estimate derived from it) is blind to a sliver that such a circle cuts off a
// cell between two nodes, so the basic rule is an iterated integral that is split exactly where the circles
// are:
//   * the outer variable v is split at the latitudes where a circle is tangent to a parallel and where it
//     crosses the two meridians bounding the rectangle (between those, the number of crossings of a parallel
//     with every circle is constant, so the inner integral is a smooth function of v);
//   * for every outer node the inner variable phi is split at the crossings of that parallel with the circles;
//   * on every piece a Gauss-Legendre rule is used, with the algebraic substitution t = L*u^3 at the ends that
//     are such split points: an end behaviour t^alpha (alpha >= 0) of the inner integrand, or (t^(alpha+1/2),
//     t^(alpha+1)) of the outer one, becomes u^(3 alpha + 2) or smoother.
// All positions are closed-form spherical trigonometry; nothing depends on where nodes happen to fall.

var gl4x = [4]float64{-0.8611363115940526, -0.3399810435848563, 0.3399810435848563, 0.8611363115940526}
var gl4w = [4]float64{0.3478548451374538, 0.6521451548625461, 0.6521451548625461, 0.3478548451374538}

var gl6x = [6]float64{-0.9324695142031521, -0.6612093864662645, -0.2386191860831969, 0.2386191860831969, 0.6612093864662645, 0.9324695142031521}
var gl6w = [6]float64{0.1713244923791704, 0.3607615730481386, 0.4679139345726910, 0.4679139345726910, 0.3607615730481386, 0.1713244923791704}

type hint struct {
	dir   kit.V3
	sigma float64
}

// circle is a locus {w : axis.w = kappa} across which the integrand is not smooth.
type circle struct {
	axis  kit.V3
	kappa float64
	// in the current frame: axis = c*a + rho*(cos(psi) e1 + sin(psi) e2)
	c, rho, psi float64
	vt          [2]float64 // warped latitudes of the two parallels the circle is tangent to
}

type node struct{ x, w float64 }

type integ struct {
	f        func(kit.V3) float64
	fr       frame
	wp       warp
	hints    []hint
	circles  []circle
	avoid    []kit.V3 // axes of delta lobes: nodes are moved off them
	evals    int
	maxEvals int
	maxDepth int
	errSum   float64 // accumulated error estimate since the last reset
	bad      bool    // integrand returned a non-finite or negative value
	badAt    kit.V3
	badVal   float64

	crit, brk    []float64 // scratch
	outer, inner []node
}

const avoidRadius = 6e-4 // rad; the delta caps of the library have an angular radius of 1.4e-4

func (q *integ) eval(w kit.V3) float64 {
	for _, a := range q.avoid {
		if d := w.Sub(a); d.Norm() < avoidRadius {
			// move the node away from the spike; the smooth part changes by O(1e-3) relative at most
			t := d
			if t.Norm() < 1e-12 {
				t, _ = orthoBasis(a)
			}
			w = a.Add(t.Unit().Scale(2 * avoidRadius)).Unit()
		}
	}
	q.evals++
	v := q.f(w)
	if v < 0 && v > -1e-9 {
		v = 0 // rounding noise (observed: -1e-70 from (1-|cos|)^5 with |cos| = 1+2e-16)
	}
	if !(v >= 0) || math.IsInf(v, 0) {
		if !q.bad {
			q.bad, q.badAt, q.badVal = true, w, v
		}
		return 0
	}
	return v
}

func ylat(theta float64) float64 { s := math.Sin(theta / 2); return 2 * s * s } // 1 - cos(theta), no cancellation

// setFrame fixes the frame and the warp and expresses the circles in them.
func (q *integ) setFrame(fr frame, wp warp) {
	q.fr, q.wp = fr, wp
	for i := range q.circles {
		k := &q.circles[i]
		k.c = k.axis.Dot(fr.a)
		t1, t2 := k.axis.Dot(fr.e1), k.axis.Dot(fr.e2)
		k.rho = math.Hypot(t1, t2)
		k.psi = math.Atan2(t2, t1)
		beta := math.Atan2(k.rho, k.c)                         // angle between the frame axis and the circle's axis
		gamma := math.Acos(math.Max(-1, math.Min(1, k.kappa))) // angular radius of the circle
		th1, th2 := math.Abs(beta-gamma), beta+gamma
		if th2 > math.Pi {
			th2 = 2*math.Pi - th2
		}
		k.vt = [2]float64{wp.M(ylat(th1)), wp.M(ylat(th2))}
	}
}

// meridianCrossings appends the warped latitudes at which circle k crosses the meridian phi.
func (q *integ) meridianCrossings(k *circle, phi float64, out []float64) []float64 {
	// on the meridian: axis.w = c cos(theta) + rho C sin(theta) with C = cos(phi - psi)
	b := k.rho * math.Cos(phi-k.psi)
	r := math.Hypot(k.c, b)
	if !(r > 0) || math.Abs(k.kappa) > r {
		return out
	}
	th0 := math.Atan2(b, k.c)
	d := math.Acos(math.Max(-1, math.Min(1, k.kappa/r)))
	for _, th := range [2]float64{th0 + d, th0 - d} {
		if th > math.Pi {
			th -= 2 * math.Pi
		} else if th <= -math.Pi {
			th += 2 * math.Pi
		}
		if th > 0 && th < math.Pi {
			out = append(out, q.wp.M(ylat(th)))
		}
	}
	return out
}

// parallelCrossings appends the azimuths in (p0, p1) at which circle k crosses the parallel y.
func parallelCrossings(k *circle, y, p0, p1 float64, out []float64) []float64 {
	s := math.Sqrt(math.Max(0, y*(2-y))) * k.rho
	if !(s > 0) {
		return out
	}
	qv := (k.kappa - (1-y)*k.c) / s
	if !(qv > -1 && qv < 1) {
		return out
	}
	h := math.Acos(qv)
	for _, ph := range [2]float64{k.psi + h, k.psi - h} {
		// the representative in [p0, p0 + 2pi)
		ph -= 2 * math.Pi * math.Floor((ph-p0)/(2*math.Pi))
		if ph > p0 && ph < p1 {
			out = append(out, ph)
		}
	}
	return out
}

const (
	mergeFrac = 1e-12 // split points closer than this fraction of the interval to an end coincide with it
	nearFrac  = 0.05  // an end is treated as singular when a split point lies within this fraction outside it
)

// pieceNodes appends the nodes of a Gauss-Legendre rule on [a, b]; ga/gb: graded towards that end.
func pieceNodes(a, b float64, ga, gb bool, out []node) []node {
	switch {
	case !(b > a):
		return out
	case ga && gb:
		m := (a + b) / 2
		return pieceNodes(m, b, false, true, pieceNodes(a, m, true, false, out))
	case ga || gb:
		l := b - a
		for i := 0; i < 6; i++ {
			u := (1 + gl6x[i]) / 2
			t, w := l*u*u*u, l*3*u*u*gl6w[i]/2
			if ga {
				out = append(out, node{a + t, w})
			} else {
				out = append(out, node{b - t, w})
			}
		}
		return out
	}
	h := (b - a) / 2
	for i := 0; i < 4; i++ {
		out = append(out, node{a + h*(1+gl4x[i]), h * gl4w[i]})
	}
	return out
}

// splitNodes builds the composite rule on [lo, hi] that is split at the points of sing inside the interval
// and graded towards every split point (also one just outside an end).  sing is sorted in place.
func splitNodes(lo, hi float64, sing []float64, out []node) []node {
	out = out[:0]
	if len(sing) == 0 {
		return pieceNodes(lo, hi, false, false, out)
	}
	sort.Float64s(sing)
	l := hi - lo
	glo, ghi := false, false
	a := lo
	ga := false
	for _, s := range sing {
		switch {
		case s < lo-nearFrac*l || s > hi+nearFrac*l:
		case s <= lo+mergeFrac*l:
			glo = true
		case s >= hi-mergeFrac*l:
			ghi = true
		default:
			if s-a <= mergeFrac*l {
				continue // duplicate
			}
			out = pieceNodes(a, s, ga || (a == lo && glo), true, out)
			a, ga = s, true
		}
	}
	return pieceNodes(a, hi, ga || (a == lo && glo), ghi, out)
}

func (q *integ) gl(v0, v1, p0, p1 float64) float64 {
	q.crit = q.crit[:0]
	for i := range q.circles {
		k := &q.circles[i]
		q.crit = append(q.crit, k.vt[0], k.vt[1])
		q.crit = q.meridianCrossings(k, p0, q.crit)
		q.crit = q.meridianCrossings(k, p1, q.crit)
	}
	q.outer = splitNodes(v0, v1, q.crit, q.outer)
	var sum float64
	for _, o := range q.outer {
		y := q.wp.inv(o.x)
		jac := 1 / (4 * math.Pi * q.wp.m(y))
		q.brk = q.brk[:0]
		for i := range q.circles {
			q.brk = parallelCrossings(&q.circles[i], y, p0, p1, q.brk)
		}
		q.inner = splitNodes(p0, p1, q.brk, q.inner)
		var row float64
		for _, n := range q.inner {
			row += n.w * q.eval(q.fr.dir(y, n.x))
		}
		sum += o.w * row * jac
	}
	return sum
}

// forced reports whether the rectangle must be subdivided because a hinted lobe is
// nearby and the rectangle is wider than the lobe.
func (q *integ) forced(v0, v1, p0, p1 float64) bool {
	if len(q.hints) == 0 {
		return false
	}
	y0, y1 := q.wp.inv(v0), q.wp.inv(v1)
	c := q.fr.dir(q.wp.inv((v0+v1)/2), (p0+p1)/2)
	var rad float64
	for _, y := range []float64{y0, y1} {
		for _, p := range []float64{p0, p1} {
			rad = math.Max(rad, angle(c, q.fr.dir(y, p)))
		}
	}
	for _, h := range q.hints {
		if rad > h.sigma && angle(c, h.dir) < rad+5*h.sigma {
			return true
		}
	}
	return false
}

func (q *integ) rect(v0, v1, p0, p1, coarse float64, depth int, tol float64) float64 {
	vm, pm := (v0+v1)/2, (p0+p1)/2
	a := q.gl(v0, vm, p0, pm)
	b := q.gl(vm, v1, p0, pm)
	c := q.gl(v0, vm, pm, p1)
	d := q.gl(vm, v1, pm, p1)
	fine := a + b + c + d
	err := math.Abs(fine - coarse)
	stop := depth >= q.maxDepth || q.evals > q.maxEvals
	if stop || (err <= tol && !q.forced(v0, v1, p0, p1)) {
		q.errSum += err
		return fine
	}
	return q.rect(v0, vm, p0, pm, a, depth+1, tol/2) + q.rect(vm, v1, p0, pm, b, depth+1, tol/2) +
		q.rect(v0, vm, pm, p1, c, depth+1, tol/2) + q.rect(vm, v1, pm, p1, d, depth+1, tol/2)
}

// cell integrates one top-level rectangle; returns the value and the error estimate.
func (q *integ) cell(v0, v1, p0, p1, tol float64) (float64, float64) {
	q.errSum = 0
	val := q.rect(v0, v1, p0, p1, q.gl(v0, v1, p0, p1), 0, tol)
	return val, q.errSum
}

// ---------------------------------------------------------------------------
// binning grid

type grid struct {
	fr     frame
	wp     warp
	vedges []float64
	nphi   int
}

func newGrid(primary lobe, bulk, uni, nphi int) grid {
	wp, kv := newWarp(primary, bulk, uni)
	g := grid{fr: newFrame(primary.axis), wp: wp, nphi: nphi}
	edges := []float64{}
	for k := 0; k <= kv; k++ {
		edges = append(edges, float64(k)/float64(kv))
	}
	if s := g.wp.support(); s > 0 && s < 2 {
		vb := g.wp.M(s)
		// replace an edge that is very close, else insert
		repl := false
		for i := 1; i < len(edges)-1; i++ {
			if math.Abs(edges[i]-vb) < 1e-6 {
				edges[i] = vb
				repl = true
			}
		}
		if !repl && vb > 1e-6 && vb < 1-1e-6 {
			edges = append(edges, vb)
			sort.Float64s(edges)
		}
	}
	g.vedges = edges
	return g
}

func (g grid) cells() int { return (len(g.vedges) - 1) * g.nphi }

func (g grid) cellOf(w kit.V3) int {
	y, phi := g.fr.coords(w)
	v := g.wp.M(y)
	i := sort.SearchFloat64s(g.vedges, v) // first edge >= v
	if i > 0 {
		i--
	}
	if i > len(g.vedges)-2 {
		i = len(g.vedges) - 2
	}
	// v exactly on an edge belongs to the cell above it, except the last
	if i+1 < len(g.vedges)-1 && v == g.vedges[i+1] {
		i++
	}
	j := int(phi / (2 * math.Pi) * float64(g.nphi))
	if j >= g.nphi {
		j = g.nphi - 1
	}
	return i*g.nphi + j
}

// masses integrates f over every cell: mass[c] = (1/4pi) * integral over the cell.
func (g grid) masses(q *integ, tol float64) (mass, errs []float64) {
	q.setFrame(g.fr, g.wp)
	n := g.cells()
	mass, errs = make([]float64, n), make([]float64, n)
	for i := 0; i+1 < len(g.vedges); i++ {
		for j := 0; j < g.nphi; j++ {
			p0 := 2 * math.Pi * float64(j) / float64(g.nphi)
			p1 := 2 * math.Pi * float64(j+1) / float64(g.nphi)
			mass[i*g.nphi+j], errs[i*g.nphi+j] = q.cell(g.vedges[i], g.vedges[i+1], p0, p1, tol)
		}
	}
	return
}

// ---------------------------------------------------------------------------
// statistics

// wilsonHilferty converts a chi-square statistic with k degrees of freedom into a
// standard normal score.
func wilsonHilferty(x2 float64, k int) float64 {
	kk := float64(k)
	return (math.Cbrt(x2/kk) - (1 - 2/(9*kk))) / math.Sqrt(2/(9*kk))
}

type chiResult struct {
	x2      float64
	k       int
	z       float64
	effect  float64 // (x2 - k)/N: estimate of the Pearson divergence sum (p-q)^2/q
	pooled  float64 // expectation of the pool
	poolObs int
	worst   int // index of the cell with the largest contribution
}

// chiSquare compares observed counts with expectations; cells with an expectation
// below minExp are pooled; a pool that still has an expectation below minExp is
// left out of the statistic (see poissonExcess).
func chiSquare(obs []int, exp []float64, n int, minExp float64) chiResult {
	var r chiResult
	var pe float64
	var po int
	best := -1.0
	for i := range obs {
		if exp[i] < minExp {
			pe += exp[i]
			po += obs[i]
			continue
		}
		d := float64(obs[i]) - exp[i]
		c := d * d / exp[i]
		r.x2 += c
		r.k++
		if c > best {
			best, r.worst = c, i
		}
	}
	r.pooled, r.poolObs = pe, po
	if pe >= minExp {
		d := float64(po) - pe
		r.x2 += d * d / pe
		r.k++
	}
	if r.k > 0 {
		r.z = wilsonHilferty(r.x2, r.k)
		r.effect = (r.x2 - float64(r.k)) / float64(n)
	}
	return r
}

// poissonExcess returns the Chernoff exponent of observing at least x events when
// e are expected: P(X >= x) <= exp(-result) for a Poisson (and a fortiori binomial)
// count.  0 when x <= e.
func poissonExcess(x int, e float64) float64 {
	fx := float64(x)
	if fx <= e {
		return 0
	}
	if e <= 0 {
		return math.Inf(1)
	}
	return fx*math.Log(fx/e) - (fx - e)
}

// binomKL returns n*KL(x/n || p): P(X >= x) (or <= x on the other side) <= exp(-result)
// exactly (Chernoff bound for the binomial distribution), for either tail.
func binomKL(x, n int, p float64) float64 {
	q := float64(x) / float64(n)
	var kl float64
	if q > 0 {
		if p <= 0 {
			return math.Inf(1)
		}
		kl += q * math.Log(q/p)
	}
	if q < 1 {
		if p >= 1 {
			return math.Inf(1)
		}
		kl += (1 - q) * math.Log((1-q)/(1-p))
	}
	return float64(n) * kl
}
