package c19

import (
	"fmt"
	"math"
	"testing"
	"time"

	"verifharness/kit"
)

func refDensity(ls []lobe) func(kit.V3) float64 {
	return func(w kit.V3) float64 {
		var s float64
		for _, l := range ls {
			c := l.axis.Dot(w)
			switch l.kind {
			case "pow":
				if c > 0 {
					s += l.w * 2 * (l.alpha + 1) * math.Pow(c, l.alpha)
				} else if c == 0 && l.alpha == 0 {
					s += l.w * 2
				}
			case "hg":
				g := l.g
				s += l.w * (1 - g*g) / math.Pow(1+g*g-2*g*c, 1.5)
			case "cap":
				if c >= l.minCos {
					s += l.w * 2 / (1 - l.minCos)
				}
			}
		}
		return s
	}
}

func TestScratchIntegrator(t *testing.T) {
	a1 := kit.V3{0.3, -0.5, 0.8}.Unit()
	a2 := kit.V3{-0.6, 0.1, 0.7}.Unit()
	a3 := kit.V3{0.31, -0.5, 0.8}.Unit()
	cases := [][]lobe{
		{{kind: "pow", axis: a1, alpha: 0, w: 1}},
		{{kind: "pow", axis: a1, alpha: 0.01, w: 1}},
		{{kind: "pow", axis: a1, alpha: 1, w: 1}},
		{{kind: "pow", axis: a1, alpha: 7.3, w: 1}},
		{{kind: "pow", axis: a1, alpha: 1e4, w: 1}},
		{{kind: "hg", axis: a1, g: 0.6, w: 1}},
		{{kind: "hg", axis: a1, g: 0.99, w: 1}},
		{{kind: "hg", axis: a1, g: 1e-5, w: 1}},
		{{kind: "cap", axis: a1, minCos: 0.9999995, w: 1}},
		{{kind: "cap", axis: a1, minCos: 0.05, w: 1}},
		{{kind: "pow", axis: a1, alpha: 1e4, w: 0.5}, {kind: "pow", axis: a2, alpha: 1, w: 0.5}},
		{{kind: "pow", axis: a1, alpha: 1e4, w: 0.5}, {kind: "pow", axis: a2, alpha: 0, w: 0.5}},
		{{kind: "pow", axis: a1, alpha: 1e4, w: 0.3}, {kind: "pow", axis: a2, alpha: 5e3, w: 0.3}, {kind: "hg", axis: a3, g: 0.98, w: 0.4}},
		{{kind: "pow", axis: a1, alpha: 3, w: 0.3}, {kind: "pow", axis: a2, alpha: 0.2, w: 0.3}, {kind: "hg", axis: a3, g: 0.5, w: 0.4}},
	}
	for _, ls := range cases {
		d := dist{density: refDensity(ls), lobes: ls}
		st := time.Now()
		an, skip, err := analyse(d)
		el := time.Since(st)
		var minM, maxM float64 = 1, 0
		for _, m := range an.mass {
			minM, maxM = math.Min(minM, m), math.Max(maxM, m)
		}
		fmt.Printf("%-60s total=%.7f err=%.2e evals=%d cells=%d mass[%.2e..%.2e] skip=%q err=%v %v\n", describe(ls), an.total, an.quadErr, an.evals, len(an.mass), minM, maxM, skip, err, el)
	}
}

func TestScratchScan(t *testing.T) {
	a1 := kit.V3{0.3, -0.5, 0.8}.Unit()
	worstTot, worstCell := 0.0, 0.0
	var wt, wc string
	for i := 0; i <= 60; i++ {
		alpha := 0.01 * math.Pow(1e6, float64(i)/60)
		for k := 0; k < 6; k++ {
			th := []float64{0, 0.02, 0.5, 1.2, 1.5707, 2.9}[k]
			e1, _ := orthoBasis(a1)
			a2 := a1.Scale(math.Cos(th)).Add(e1.Scale(math.Sin(th))).Unit()
			var ls []lobe
			if k == 0 {
				ls = []lobe{{kind: "pow", axis: a1, alpha: alpha, w: 1}}
			} else {
				ls = []lobe{{kind: "pow", axis: a1, alpha: alpha, w: 0.5}, {kind: "pow", axis: a2, alpha: 1, w: 0.5}}
			}
			d := dist{density: refDensity(ls), lobes: ls}
			an, _, _ := analyse(d)
			if e := math.Abs(an.total-1) - an.quadErr; e > worstTot {
				worstTot, wt = e, fmt.Sprintf("%s th=%g total=%.7f err=%.2e", describe(ls), th, an.total, an.quadErr)
			}
			if k == 0 {
				wp := an.g.wp
				for c := range an.mass {
					vi := c / an.g.nphi
					y0, y1 := wp.inv(an.g.vedges[vi]), wp.inv(an.g.vedges[vi+1])
					cdf := func(y float64) float64 {
						if y >= 1 {
							return 1
						}
						return -math.Expm1((alpha + 1) * math.Log1p(-y))
					}
					want := (cdf(y1) - cdf(y0)) / float64(an.g.nphi)
					if e := math.Abs(an.mass[c]-want) - an.errs[c]; e > worstCell {
						worstCell, wc = e, fmt.Sprintf("alpha=%g cell %d mass=%.6e want=%.6e err=%.2e", alpha, c, an.mass[c], want, an.errs[c])
					}
				}
			}
		}
	}
	fmt.Println("worst undetected total error:", worstTot, wt)
	fmt.Println("worst undetected cell error:", worstCell, wc)
	for i := 0; i <= 40; i++ {
		g := 1 - math.Pow(10, -3*float64(i)/40)
		ls := []lobe{{kind: "hg", axis: a1, g: g, w: 1}}
		d := dist{density: refDensity(ls), lobes: ls}
		an, _, _ := analyse(d)
		if e := math.Abs(an.total-1) - an.quadErr; e > 1e-5 {
			fmt.Println("hg", g, an.total, an.quadErr)
		}
	}
}
