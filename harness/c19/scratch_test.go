package c19

import (
	"fmt"
	"math"
	"testing"
	"time"

	"verifharness/kit"
)

func refDensity(ls []lobe) func(kit.V3) float64 {
	return func(w kit.V3) float64 {
		var s float64
		for _, l := range ls {
			c := l.axis.Dot(w)
			switch l.kind {
			case "pow":
				if c > 0 {
					s += l.w * 2 * (l.alpha + 1) * math.Pow(c, l.alpha)
				} else if c == 0 && l.alpha == 0 {
					s += l.w * 2
				}
			case "hg":
				g := l.g
				s += l.w * (1 - g*g) / math.Pow(1+g*g-2*g*c, 1.5)
			case "cap":
				if c >= l.minCos {
					s += l.w * 2 / (1 - l.minCos)
				}
			}
		}
		return s
	}
}

func TestScratchIntegrator(t *testing.T) {
	a1 := kit.V3{0.3, -0.5, 0.8}.Unit()
	a2 := kit.V3{-0.6, 0.1, 0.7}.Unit()
	a3 := kit.V3{0.31, -0.5, 0.8}.Unit()
	cases := [][]lobe{
		{{kind: "pow", axis: a1, alpha: 0, w: 1}},
		{{kind: "pow", axis: a1, alpha: 0.01, w: 1}},
		{{kind: "pow", axis: a1, alpha: 1, w: 1}},
		{{kind: "pow", axis: a1, alpha: 7.3, w: 1}},
		{{kind: "pow", axis: a1, alpha: 1e4, w: 1}},
		{{kind: "hg", axis: a1, g: 0.6, w: 1}},
		{{kind: "hg", axis: a1, g: 0.99, w: 1}},
		{{kind: "hg", axis: a1, g: 1e-5, w: 1}},
		{{kind: "cap", axis: a1, minCos: 0.9999995, w: 1}},
		{{kind: "cap", axis: a1, minCos: 0.05, w: 1}},
		{{kind: "pow", axis: a1, alpha: 1e4, w: 0.5}, {kind: "pow", axis: a2, alpha: 1, w: 0.5}},
		{{kind: "pow", axis: a1, alpha: 1e4, w: 0.5}, {kind: "pow", axis: a2, alpha: 0, w: 0.5}},
		{{kind: "pow", axis: a1, alpha: 1e4, w: 0.3}, {kind: "pow", axis: a2, alpha: 5e3, w: 0.3}, {kind: "hg", axis: a3, g: 0.98, w: 0.4}},
		{{kind: "pow", axis: a1, alpha: 3, w: 0.3}, {kind: "pow", axis: a2, alpha: 0.2, w: 0.3}, {kind: "hg", axis: a3, g: 0.5, w: 0.4}},
	}
	for _, ls := range cases {
		d := dist{density: refDensity(ls), lobes: ls}
		st := time.Now()
		an, skip, err := analyse(d)
		el := time.Since(st)
		var minM, maxM float64 = 1, 0
		for _, m := range an.mass {
			minM, maxM = math.Min(minM, m), math.Max(maxM, m)
		}
		fmt.Printf("%-60s total=%.7f err=%.2e evals=%d cells=%d mass[%.2e..%.2e] skip=%q err=%v %v\n", describe(ls), an.total, an.quadErr, an.evals, len(an.mass), minM, maxM, skip, err, el)
	}
}
