package c19

// Self-tests of the oracle's numerics (not part of TestProp; run with `go test -run TestOracle ./c19`).
// They calibrate the quadrature against closed-form reference densities that are written down here
// independently of the library: totals, cell masses of single lobes (exact CDF), convergence of mixtures
// under refinement, and the chi-square statistic against an exact inverse-CDF sampler.

import (
	"math"
	"math/rand"
	"testing"

	"verifharness/kit"
)

func refDensity(ls []lobe) func(kit.V3) float64 {
	return func(w kit.V3) float64 {
		var s float64
		for _, l := range ls {
			c := l.axis.Dot(w)
			switch l.kind {
			case "pow":
				if c > 0 {
					s += l.w * 2 * (l.alpha + 1) * math.Pow(c, l.alpha)
				} else if c == 0 && l.alpha == 0 {
					s += l.w * 2
				}
			case "hg":
				g := l.g
				s += l.w * (1 - g*g) / math.Pow(1+g*g-2*g*c, 1.5)
			case "cap":
				if c >= l.minCos {
					s += l.w * 2 / (1 - l.minCos)
				}
			}
		}
		return s
	}
}

// refSample draws from the mixture by inverse CDF.
func refSample(ls []lobe, r *rand.Rand) kit.V3 {
	u := r.Float64()
	l := ls[len(ls)-1]
	for _, c := range ls {
		if u < c.w {
			l = c
			break
		}
		u -= c.w
	}
	var cs float64
	switch l.kind {
	case "pow":
		cs = math.Pow(r.Float64(), 1/(l.alpha+1))
	case "cap":
		cs = 1 - r.Float64()*(1-l.minCos)
	case "hg":
		g := l.g
		t := (1 - g*g) / (1 - g + 2*g*r.Float64())
		cs = (1 + g*g - t*t) / (2 * g)
	}
	e1, e2 := orthoBasis(l.axis)
	phi := 2 * math.Pi * r.Float64()
	sn := math.Sqrt(math.Max(0, 1-cs*cs))
	return l.axis.Scale(cs).Add(e1.Scale(sn * math.Cos(phi))).Add(e2.Scale(sn * math.Sin(phi))).Unit()
}

func tilt(a kit.V3, th, az float64) kit.V3 {
	e1, e2 := orthoBasis(a)
	t := e1.Scale(math.Cos(az)).Add(e2.Scale(math.Sin(az)))
	return a.Scale(math.Cos(th)).Add(t.Scale(math.Sin(th))).Unit()
}

func selfTestMixtures() [][]lobe {
	a1 := kit.V3{0.3, -0.5, 0.8}.Unit()
	var out [][]lobe
	alphas := []float64{0, 1e-3, 0.0255, 0.069, 0.25, 0.5, 1, 1.585, 3, 5.01, 7.3, 40, 1e4}
	// the angles include the grazing configurations of the false alarms this machinery replaced (the equator of
	// the second lobe passes within 0.006 rad of the pole of the grid, one degree off a cell edge), exactly
	// orthogonal, coaxial, nearly coaxial and opposite axes
	thetas := []float64{0, 1e-9, 1e-3, 0.02, 0.5, 1.2, math.Pi/2 - 0.0059, math.Pi / 2, math.Pi/2 + 1e-4, 2.9, math.Pi - 1e-3, math.Pi}
	for i, al := range alphas {
		out = append(out, []lobe{{kind: "pow", axis: a1, alpha: al, w: 1}})
		for j, th := range thetas {
			az := 0.7 + 2.1*float64(i) + 0.37*float64(j)
			if j%3 == 0 {
				az = math.Pi/4*float64(i) + math.Pi/180 // one degree off a cell edge of the second lobe's frame
			}
			out = append(out, []lobe{{kind: "pow", axis: a1, alpha: al, w: 0.5}, {kind: "pow", axis: tilt(a1, th, az), alpha: 1, w: 0.5}})
		}
	}
	a2, a3 := tilt(a1, 1.1, 0.3), tilt(a1, 2.0, 4)
	out = append(out,
		[]lobe{{kind: "hg", axis: a1, g: 0.6, w: 1}},
		[]lobe{{kind: "hg", axis: a1, g: 0.99, w: 1}},
		[]lobe{{kind: "hg", axis: a1, g: 1e-5, w: 1}},
		[]lobe{{kind: "cap", axis: a1, minCos: 0.9999995, w: 1}},
		[]lobe{{kind: "cap", axis: a1, minCos: 0.05, w: 1}},
		[]lobe{{kind: "cap", axis: a1, minCos: 0.6, w: 0.4}, {kind: "pow", axis: a2, alpha: 0.3, w: 0.6}},
		[]lobe{{kind: "pow", axis: a1, alpha: 1e4, w: 0.3}, {kind: "pow", axis: a2, alpha: 5e3, w: 0.3}, {kind: "hg", axis: a3, g: 0.98, w: 0.4}},
		[]lobe{{kind: "pow", axis: a1, alpha: 3, w: 0.3}, {kind: "pow", axis: a2, alpha: 0.2, w: 0.3}, {kind: "hg", axis: a3, g: 0.5, w: 0.4}},
		[]lobe{{kind: "pow", axis: a1, alpha: 0.04, w: 0.2}, {kind: "pow", axis: a2, alpha: 1, w: 0.2}, {kind: "pow", axis: a3, alpha: 0, w: 0.2},
			{kind: "pow", axis: a1.Scale(-1), alpha: 1, w: 0.2}, {kind: "pow", axis: tilt(a2, 0.01, 1), alpha: 0.6, w: 0.2}},
	)
	return out
}

func TestOracleQuadrature(t *testing.T) {
	var worstTot, worstCell, worstRef float64
	for _, ls := range selfTestMixtures() {
		d := dist{density: refDensity(ls), lobes: ls}
		an, skip, err := analyse(d)
		if err != nil || skip != "" {
			t.Errorf("%s: skip %q err %v", describe(ls), skip, err)
			continue
		}
		// the total is 1 exactly; the error estimate must cover the deviation up to a floor far below the
		// tolerance of the clause (1e-3)
		if e := math.Abs(an.total-1) - an.quadErr; e > 3e-5 {
			t.Errorf("%s: total %.8f, error estimate %.2e", describe(ls), an.total, an.quadErr)
		} else if e > worstTot {
			worstTot = e
		}
		if len(ls) == 1 && ls[0].kind == "pow" {
			// exact cell masses from the CDF 1-(1-y)^(alpha+1)
			alpha := ls[0].alpha
			cdf := func(y float64) float64 {
				if y >= 1 {
					return 1
				}
				return -math.Expm1((alpha + 1) * math.Log1p(-y))
			}
			for c := range an.mass {
				vi := c / an.g.nphi
				y0, y1 := an.g.wp.inv(an.g.vedges[vi]), an.g.wp.inv(an.g.vedges[vi+1])
				want := (cdf(y1) - cdf(y0)) / float64(an.g.nphi)
				e := math.Abs(an.mass[c]-want) - 2*an.errs[c]
				if e > 2e-3*want+1e-9 {
					t.Errorf("%s: cell %d mass %.6e, exact %.6e, error estimate %.2e", describe(ls), c, an.mass[c], want, an.errs[c])
				}
				worstCell = math.Max(worstCell, e)
			}
			continue
		}
		// mixtures: the same cells under a much finer tolerance
		ref := refine(d, an)
		for c := range an.mass {
			e := math.Abs(an.mass[c]-ref[c]) - 2*an.errs[c]
			if e > 2e-3*ref[c]+1e-9 {
				t.Errorf("%s: cell %d mass %.6e, refined %.6e, error estimate %.2e", describe(ls), c, an.mass[c], ref[c], an.errs[c])
			}
			worstRef = math.Max(worstRef, e)
		}
	}
	t.Logf("worst uncovered error: total %.2e, single-lobe cell %.2e, mixture cell vs refinement %.2e", worstTot, worstCell, worstRef)
}

func refine(d dist, an *analysis) []float64 {
	q := &integ{f: d.density, maxEvals: 40000000, maxDepth: 11, circles: lobeCircles(an.smooth)}
	m, _ := an.g.masses(q, 1e-9)
	return m
}

// TestOracleStatistic: the chi-square score of exact samples against the computed cell masses behaves like a
// standard normal score (no positive drift from quadrature error), also with 2e5 samples.
func TestOracleStatistic(t *testing.T) {
	r := rand.New(rand.NewSource(7))
	var sum, sum2, worst float64
	var n int
	for i, ls := range selfTestMixtures() {
		if i%3 != 0 && len(ls) < 3 {
			continue
		}
		d := dist{density: refDensity(ls), lobes: ls}
		an, _, _ := analyse(d)
		const N = 200000
		obs := make([]int, an.g.cells())
		for k := 0; k < N; k++ {
			obs[an.g.cellOf(refSample(ls, r))]++
		}
		exp := make([]float64, len(obs))
		for c, m := range an.mass {
			exp[c] = N * m
		}
		res := chiSquare(obs, exp, N, minExpected)
		sum += res.z
		sum2 += res.z * res.z
		n++
		if res.z > worst {
			worst = res.z
		}
		if res.z > 4.5 {
			t.Errorf("%s: z = %.2f (chi-square %.1f on %d cells) for exact samples", describe(ls), res.z, res.x2, res.k)
		}
	}
	mean := sum / float64(n)
	sd := math.Sqrt(sum2/float64(n) - mean*mean)
	t.Logf("%d mixtures: z mean %.2f, sd %.2f, max %.2f", n, mean, sd, worst)
	if math.Abs(mean) > 0.6 {
		t.Errorf("mean z %.2f over %d mixtures: the expectations are biased", mean, n)
	}
}
