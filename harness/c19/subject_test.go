package c19

// Case descriptions (pure data), their builders into library objects, and the
// independent reference model of where the lobes of each sampler are.

import (
	"fmt"
	"github.com/unixpickle/model3d/model3d"
	"math"
	"math/rand"
	"sort"

	"github.com/unixpickle/model3d/render3d"
	"pgregory.net/rapid"
	"verifharness/gen"
	"verifharness/kit"
	"verifharness/m3"
)

// Mat describes a material.
//
//	lambert: Diff
//	phong:   Alpha, Spec, Diff, NoFlux
//	hg:      G, Spec (= ScatterColor), IgnoreNormals
//	refract: Index, Diff (= RefractColor), Spec (= SpecularColor; zero: no Fresnel reflection)
//	joined:  Parts, Probs
type Mat struct {
	Kind          string    `json:"kind"`
	Alpha         float64   `json:"alpha,omitempty"`
	Spec          kit.V3    `json:"spec"`
	Diff          kit.V3    `json:"diff"`
	NoFlux        bool      `json:"noflux,omitempty"`
	G             float64   `json:"g,omitempty"`
	IgnoreNormals bool      `json:"ignore_normals,omitempty"`
	Index         float64   `json:"index,omitempty"`
	Parts         []Mat     `json:"parts,omitempty"`
	Probs         []float64 `json:"probs,omitempty"`
}

func (m Mat) Build() render3d.Material {
	switch m.Kind {
	case "lambert":
		return &render3d.LambertMaterial{DiffuseColor: m3.C3(m.Diff)}
	case "phong":
		return &render3d.PhongMaterial{Alpha: m.Alpha, SpecularColor: m3.C3(m.Spec), DiffuseColor: m3.C3(m.Diff), NoFluxCorrection: m.NoFlux}
	case "hg":
		return &render3d.HGMaterial{G: m.G, ScatterColor: m3.C3(m.Spec), IgnoreNormals: m.IgnoreNormals}
	case "refract":
		if math.Float64bits(m.Index)%3 == 0 {
			// a material that has been used already with another index (a scene edited between two renders), or a
			// copy of such a material: what it does follows its fields as they are now
			used := &render3d.RefractMaterial{IndexOfRefraction: 1 + (m.Index-1)*0.37 + 0.11, RefractColor: m3.C3(m.Diff), SpecularColor: m3.C3(m.Spec)}
			n, d := model3d.Z(1), model3d.XYZ(0.3, 0.2, 0.933)
			used.BSDF(n, d.Scale(-1), d)
			used.SourceDensity(n, d.Scale(-1), d)
			used.IndexOfRefraction = m.Index
			if math.Float64bits(m.Index)%6 == 0 {
				cp := *used
				return &cp
			}
			return used
		}
		return &render3d.RefractMaterial{IndexOfRefraction: m.Index, RefractColor: m3.C3(m.Diff), SpecularColor: m3.C3(m.Spec)}
	case "joined":
		j := &render3d.JoinedMaterial{Probs: append([]float64(nil), m.Probs...)}
		for _, p := range m.Parts {
			j.Materials = append(j.Materials, p.Build())
		}
		return j
	}
	panic("c19: unknown material kind " + m.Kind)
}

func isZero(v kit.V3) bool { return v[0] == 0 && v[1] == 0 && v[2] == 0 }

// kinds lists the leaf kinds and variants of the material (for labels).
func (m Mat) kinds(out map[string]bool) {
	switch m.Kind {
	case "joined":
		for _, p := range m.Parts {
			if p.Kind == "joined" {
				out["joined:nested"] = true
			}
			p.kinds(out)
		}
		return
	case "phong":
		if isZero(m.Diff) {
			out["phong:specular-only"] = true
		} else {
			out["phong:with-diffuse"] = true
		}
		if m.NoFlux {
			out["phong:no-flux-correction"] = true
		} else {
			out["phong:flux-correction"] = true
		}
		out[alphaClass("phong:alpha", m.Alpha)] = true
	case "hg":
		if m.IgnoreNormals {
			out["hg:ignore-normals"] = true
		} else {
			out["hg:cancel-cosine"] = true
		}
		switch {
		case math.Abs(m.G) < 1e-5:
			out["hg:g~0(clamped)"] = true
		case m.G < 0:
			out["hg:backward"] = true
		default:
			out["hg:forward"] = true
		}
	case "refract":
		if isZero(m.Spec) {
			out["refract:plain"] = true
		} else {
			out["refract:fresnel"] = true
		}
		if m.Index < 1 {
			out["refract:index<1"] = true
		}
	}
	out[m.Kind] = true
}

func alphaClass(prefix string, a float64) string {
	switch {
	case a == 0:
		return prefix + "=0"
	case a < 0.1:
		return prefix + "<0.1"
	case a < 1:
		return prefix + "<1"
	case a <= 100:
		return prefix + "<=100"
	}
	return prefix + ">100"
}

// suiteValue reports whether every parameter of the (leaf) material is one the
// repository's own tests use.
func (m Mat) suiteValue() bool {
	switch m.Kind {
	case "lambert":
		return true
	case "phong":
		return m.Alpha == 0 || m.Alpha == 0.5 || m.Alpha == 2 || m.Alpha == 1e5
	case "hg":
		for _, g := range []float64{-0.9, -0.5, 0, 0.5, 0.9} {
			if m.G == g {
				return true
			}
		}
		return false
	case "refract":
		return m.Index == 1.3
	}
	return false
}

// ---------------------------------------------------------------------------
// reference optics

// mirror reflects the direction of travel v at a surface with unit normal n.
func mirror(n, v kit.V3) kit.V3 { return v.Sub(n.Scale(2 * n.Dot(v))) }

// snell refracts the direction of travel v (unit) at a surface with outward unit normal n
// of a medium with the given index (outside: index 1).  tir reports total internal
// reflection (the mirror direction is returned); margin is |eta*sin - 1|, the distance
// from the critical angle.
func snell(n, v kit.V3, index float64) (out kit.V3, tir bool, margin float64) {
	c := n.Dot(v)
	eta := index // leaving the medium: sin_out = index * sin_in
	if c < 0 {
		eta = 1 / index // entering
	}
	tang := v.Sub(n.Scale(c)).Scale(eta)
	s := tang.Norm()
	margin = math.Abs(s - 1)
	if s > 1 {
		return mirror(n, v), true, margin
	}
	sign := 1.0
	if c < 0 {
		sign = -1
	}
	return tang.Add(n.Scale(sign * math.Sqrt(1-s*s))), false, margin
}

// schlick is the cited approximation R0 + (1-R0)(1-cos)^5.
func schlick(index, cos float64) float64 {
	x := (index - 1) / (index + 1)
	r0 := x * x
	return r0 + (1-r0)*math.Pow(1-math.Abs(cos), 5)
}

// lobesSource lists the lobes of SampleSource(normal n, dest d) for the material, with total weight w.
func lobesSource(m Mat, n, d kit.V3, w float64) []lobe {
	switch m.Kind {
	case "lambert":
		return []lobe{{kind: "pow", axis: n.Scale(-1), alpha: 1, w: w}}
	case "phong":
		spec := lobe{kind: "pow", axis: mirror(n, d), alpha: m.Alpha, w: w}
		if isZero(m.Diff) {
			return []lobe{spec}
		}
		spec.w = w / 2
		return []lobe{spec, {kind: "pow", axis: n.Scale(-1), alpha: 1, w: w / 2}}
	case "hg":
		if m.G < 0 {
			return []lobe{{kind: "hg", axis: d.Scale(-1), g: -m.G, w: w}}
		}
		return []lobe{{kind: "hg", axis: d, g: m.G, w: w}}
	case "refract":
		// light arriving along `source` leaves along d: reverse the path
		r, _, _ := snell(n, d.Scale(-1), m.Index)
		refr := lobe{kind: "delta", axis: r.Scale(-1).Unit(), w: w, tag: "refract"}
		if isZero(m.Spec) {
			return []lobe{refr}
		}
		R := schlick(m.Index, n.Dot(d))
		refr.w = w * (1 - R)
		return []lobe{refr, {kind: "delta", axis: mirror(n, d).Unit(), w: w * R, tag: "mirror"}}
	case "joined":
		var out []lobe
		for i, p := range m.Parts {
			out = append(out, lobesSource(p, n, d, w*m.Probs[i])...)
		}
		return out
	}
	panic("c19: unknown material kind " + m.Kind)
}

// lobesDest lists the lobes of SampleDest(normal n, source s).
func lobesDest(m Mat, n, s kit.V3, w float64) []lobe {
	switch m.Kind {
	case "refract":
		// the light travels along s, is refracted or mirrored: the same construction seen from the other side
		return lobesSource(m, n.Scale(-1), s, w)
	case "joined":
		var out []lobe
		for i, p := range m.Parts {
			out = append(out, lobesDest(p, n, s, w*m.Probs[i])...)
		}
		return out
	}
	ls := lobesSource(m, n, s.Scale(-1), w)
	for i := range ls {
		ls[i].axis = ls[i].axis.Scale(-1)
	}
	return ls
}

// tirMargin returns the smallest distance from the critical angle over the refractive
// leaves of the material for the given configuration (1 when there is none).
func tirMargin(m Mat, mode string, n, fixed kit.V3) float64 {
	switch m.Kind {
	case "refract":
		var mg float64
		if mode == "dest" {
			_, _, mg = snell(n, fixed, m.Index)
		} else {
			_, _, mg = snell(n, fixed.Scale(-1), m.Index)
		}
		return mg
	case "joined":
		best := 1.0
		for _, p := range m.Parts {
			best = math.Min(best, tirMargin(p, mode, n, fixed))
		}
		return best
	}
	return 1
}

// ---------------------------------------------------------------------------
// focus points

type Focus struct {
	Kind   string  `json:"kind"`   // "phong" | "sphere"
	Target kit.V3  `json:"target"` // phong: Target; sphere: Center
	Alpha  float64 `json:"alpha,omitempty"`
	Radius float64 `json:"radius,omitempty"`
	Filter string  `json:"filter,omitempty"` // "", "accept", "reject"
}

func (f Focus) Build() render3d.FocusPoint {
	var filt func(render3d.Material) bool
	switch f.Filter {
	case "accept":
		filt = func(render3d.Material) bool { return true }
	case "reject":
		filt = func(render3d.Material) bool { return false }
	}
	if f.Kind == "phong" {
		return &render3d.PhongFocusPoint{Target: m3.C3(f.Target), Alpha: f.Alpha, MaterialFilter: filt}
	}
	return &render3d.SphereFocusPoint{Center: m3.C3(f.Target), Radius: f.Radius, MaterialFilter: filt}
}

// active reports whether the focus point (by its documentation) takes over the sampling at point p.
func (f Focus) active(p kit.V3) bool {
	if f.Filter == "reject" {
		return false
	}
	if f.Kind == "phong" {
		return p != f.Target
	}
	return !(p.Dist(f.Target) < f.Radius)
}

// ---------------------------------------------------------------------------
// subject = a sampler together with the density it reports

type Subject struct {
	Mat    Mat    `json:"mat"`
	Focus  *Focus `json:"focus,omitempty"`
	Mode   string `json:"mode"`   // "source": SampleSource/SourceDensity (or the focus point); "dest": SampleDest/DestDensity
	Normal kit.V3 `json:"normal"` // unit
	Fixed  kit.V3 `json:"fixed"`  // unit; the dest (source mode) or the source (dest mode)
	Point  kit.V3 `json:"point"`  // focus points: the surface point
}

type dist struct {
	sample  func(r *rand.Rand) kit.V3
	density func(w kit.V3) float64
	lobes   []lobe
}

func (s Subject) build() dist {
	mat := s.Mat.Build()
	n, f := m3.C3(s.Normal), m3.C3(s.Fixed)
	if s.Focus != nil {
		fp := s.Focus.Build()
		p := m3.C3(s.Point)
		d := dist{
			sample:  func(r *rand.Rand) kit.V3 { return m3.V3(fp.SampleFocus(r, mat, p, n, f)) },
			density: func(w kit.V3) float64 { return fp.FocusDensity(mat, p, n, m3.C3(w), f) },
		}
		switch {
		case !s.Focus.active(s.Point):
			d.lobes = lobesSource(s.Mat, s.Normal, s.Fixed, 1)
		case s.Focus.Kind == "phong":
			d.lobes = []lobe{{kind: "pow", axis: s.Point.Sub(s.Focus.Target).Unit(), alpha: s.Focus.Alpha, w: 1}}
		default:
			dd := s.Point.Dist(s.Focus.Target)
			rho := s.Focus.Radius / dd
			// the rays that hit the sphere: a cone with sin(half angle) = r/d
			d.lobes = []lobe{{kind: "cap", axis: s.Point.Sub(s.Focus.Target).Unit(), minCos: math.Sqrt((1 - rho) * (1 + rho)), w: 1}}
		}
		return d
	}
	if s.Mode == "dest" {
		return dist{
			sample:  func(r *rand.Rand) kit.V3 { return m3.V3(render3d.SampleDest(mat, r, n, f)) },
			density: func(w kit.V3) float64 { return render3d.DestDensity(mat, n, f, m3.C3(w)) },
			lobes:   lobesDest(s.Mat, s.Normal, s.Fixed, 1),
		}
	}
	return dist{
		sample:  func(r *rand.Rand) kit.V3 { return m3.V3(mat.SampleSource(r, n, f)) },
		density: func(w kit.V3) float64 { return mat.SourceDensity(n, m3.C3(w), f) },
		lobes:   lobesSource(s.Mat, s.Normal, s.Fixed, 1),
	}
}

func (s Subject) labels(o *kit.Obs) {
	ks := map[string]bool{}
	s.Mat.kinds(ks)
	var names []string
	for k := range ks {
		names = append(names, k)
	}
	sort.Strings(names)
	for _, k := range names {
		o.Label("mat:" + k)
	}
	if s.Mat.Kind == "joined" {
		o.Label("mat:joined")
	}
	o.Label("mode:" + s.Mode)
	if s.Mode == "dest" {
		// DestDensity/SampleDest: materials that are not an AsymMaterial go through the generic fallback
		if s.Mat.Kind == "refract" || s.Mat.Kind == "joined" {
			o.Label("dest:own-method")
		} else {
			o.Label("dest:generic-fallback")
		}
	}
	if s.Focus != nil {
		st := "active"
		if !s.Focus.active(s.Point) {
			st = "fallback"
			if s.Focus.Filter == "reject" {
				st = "fallback:filter"
			}
		}
		o.Label("focus:" + s.Focus.Kind + ":" + st)
		if st == "active" && s.Focus.Kind == "phong" {
			o.Label(alphaClass("focus:phong:alpha", s.Focus.Alpha))
		}
	} else {
		o.Label("focus:none")
	}
	if c := math.Abs(s.Normal.Dot(s.Fixed)); c < 0.02 {
		o.Label("incidence:grazing")
	} else if c > 1-1e-12 {
		o.Label("incidence:normal")
	}
	if s.Normal.Dot(s.Fixed) < 0 {
		o.Label("fixed:below-normal")
	}
}

// nontrivial: some parameter away from the values the repository's tests use.
func (s Subject) nontrivial() bool {
	if s.Focus != nil && s.Focus.active(s.Point) {
		return true // focus points are not tested at all
	}
	var rec func(m Mat) bool
	rec = func(m Mat) bool {
		if m.Kind == "joined" {
			return true // joined materials are only exercised indirectly by the suite
		}
		return !m.suiteValue()
	}
	return rec(s.Mat) || s.Mode == "dest"
}

// ---------------------------------------------------------------------------
// generators

func white(x float64) kit.V3 { return kit.V3{x, x, x} }

// colourPair draws two colours whose sum is at most one per component (equal to one most of the time, so
// that the energy bound is tight).
func colourPair(t *rapid.T, label string) (a, b kit.V3) {
	switch rapid.IntRange(0, 3).Draw(t, label+".colours") {
	case 0:
		w := gen.F(t, 0.05, 0.95, label+".share")
		return white(w), white(1 - w)
	case 1:
		for i := 0; i < 3; i++ {
			a[i] = gen.F(t, 0.02, 0.98, label+".a")
			b[i] = 1 - a[i]
		}
		return
	case 2:
		for i := 0; i < 3; i++ {
			a[i] = gen.F(t, 0.02, 0.6, label+".a")
			b[i] = gen.F(t, 0.02, 0.4, label+".b")
		}
		return
	}
	return white(0.5), white(0.5)
}

func colour(t *rapid.T, label string) kit.V3 {
	if rapid.IntRange(0, 2).Draw(t, label+".white") > 0 {
		return white(1)
	}
	return kit.V3{gen.F(t, 0.02, 1, label+".r"), gen.F(t, 0.02, 1, label+".g"), gen.F(t, 0.02, 1, label+".b")}
}

func alphaGen(t *rapid.T, label string) float64 {
	switch rapid.IntRange(0, 9).Draw(t, label+".class") {
	case 0:
		return 0
	case 1:
		return rapid.SampledFrom([]float64{0.5, 1, 2, 1e4}).Draw(t, label+".special")
	case 2, 3:
		return gen.F(t, 0, 4, label)
	}
	return gen.LogF(t, 0.01, 1e4, label)
}

func gGen(t *rapid.T, label string) float64 {
	switch rapid.IntRange(0, 9).Draw(t, label+".class") {
	case 0:
		return 0
	case 1:
		return gen.F(t, -2e-5, 2e-5, label) // around the library's internal clamp
	case 2:
		s := 1.0
		if rapid.Bool().Draw(t, label+".neg") {
			s = -1
		}
		return s * (1 - gen.LogF(t, 0.01, 0.2, label)) // strongly peaked
	}
	return gen.F(t, -0.99, 0.99, label)
}

func indexGen(t *rapid.T, label string) float64 {
	switch rapid.IntRange(0, 9).Draw(t, label+".class") {
	case 0:
		return rapid.SampledFrom([]float64{1.3, 1.5, 1, 0.75, 2.5, 0.4}).Draw(t, label+".special")
	case 1, 2, 3:
		return gen.F(t, 0.4, 0.98, label)
	}
	return gen.F(t, 1.02, 2.5, label)
}

// matGen draws a material.  share scales the colours (joined materials split the energy between parts).
func matGen(t *rapid.T, depth int, kinds []string, label string) Mat {
	kind := rapid.SampledFrom(kinds).Draw(t, label+".kind")
	switch kind {
	case "lambert":
		return Mat{Kind: kind, Diff: colour(t, label+".diff")}
	case "phong":
		m := Mat{Kind: kind, Alpha: alphaGen(t, label+".alpha"), NoFlux: rapid.Bool().Draw(t, label+".noflux")}
		if rapid.Bool().Draw(t, label+".diffuse") {
			m.Spec, m.Diff = colourPair(t, label)
		} else {
			m.Spec = colour(t, label+".spec")
		}
		return m
	case "hg":
		return Mat{Kind: kind, G: gGen(t, label+".g"), Spec: colour(t, label+".scatter"), IgnoreNormals: rapid.Bool().Draw(t, label+".ignore")}
	case "refract":
		m := Mat{Kind: kind, Index: indexGen(t, label+".index"), Diff: colour(t, label+".refr")}
		if rapid.Bool().Draw(t, label+".fresnel") {
			m.Spec = colour(t, label+".spec")
		}
		return m
	case "joined":
		n := rapid.IntRange(2, 3).Draw(t, label+".n")
		m := Mat{Kind: kind}
		sub := []string{"lambert", "phong", "phong", "hg", "refract"}
		if depth > 0 {
			sub = append(sub, "joined")
		}
		var sum float64
		for i := 0; i < n; i++ {
			m.Parts = append(m.Parts, matGen(t, depth-1, sub, fmt.Sprintf("%s.part%d", label, i)))
			p := gen.F(t, 0.08, 1, fmt.Sprintf("%s.prob%d", label, i))
			m.Probs = append(m.Probs, p)
			sum += p
		}
		for i := range m.Probs {
			m.Probs[i] /= sum // documented: the probabilities should sum to 1
		}
		return m
	}
	panic("c19: unknown kind " + kind)
}

var allMatKinds = []string{"lambert", "phong", "phong", "phong", "hg", "hg", "refract", "refract", "joined", "joined"}

// directions: unit normal and unit fixed direction, with explicit classes for grazing and normal incidence.
func dirsGen(t *rapid.T, label string) (n, f kit.V3) {
	n = gen.Dir3(t, label+".normal").Unit()
	e1, e2 := orthoBasis(n)
	phi := gen.F(t, 0, 2*math.Pi, label+".azimuth")
	tang := e1.Scale(math.Cos(phi)).Add(e2.Scale(math.Sin(phi)))
	side := 1.0
	if rapid.IntRange(0, 3).Draw(t, label+".below") == 0 {
		side = -1
	}
	var c float64
	switch rapid.IntRange(0, 9).Draw(t, label+".incidence") {
	case 0:
		c = 1 // normal incidence
	case 1:
		c = gen.LogF(t, 1e-4, 0.02, label+".cos") // grazing
	case 2:
		// unrelated generic direction
		return n, gen.Dir3(t, label+".fixed").Unit()
	default:
		c = gen.F(t, 0.02, 1, label+".cos")
	}
	f = n.Scale(side * c).Add(tang.Scale(math.Sqrt(1 - c*c))).Unit()
	return n, f
}

func focusGen(t *rapid.T, label string) (*Focus, kit.V3) {
	p := gen.Vec3(t, 3, label+".point")
	f := &Focus{Filter: rapid.SampledFrom([]string{"", "", "accept", "accept", "reject"}).Draw(t, label+".filter")}
	if rapid.Bool().Draw(t, label+".phong") {
		f.Kind = "phong"
		f.Alpha = alphaGen(t, label+".alpha")
		f.Target = p.Add(gen.Dir3(t, label+".dir").Unit().Scale(gen.LogF(t, 0.01, 100, label+".dist")))
		if rapid.IntRange(0, 11).Draw(t, label+".coincide") == 0 {
			f.Target = p
		}
		return f, p
	}
	f.Kind = "sphere"
	f.Radius = gen.LogF(t, 0.01, 10, label+".radius")
	rho := gen.LogF(t, 1e-3, 0.999, label+".ratio") // radius / distance
	if rapid.IntRange(0, 7).Draw(t, label+".inside") == 0 {
		rho = gen.F(t, 1.05, 4, label+".ratio-inside") // the point is inside the sphere: documented fallback to the material
	}
	f.Target = p.Add(gen.Dir3(t, label+".dir").Unit().Scale(f.Radius / rho))
	return f, p
}

func subjectGen(t *rapid.T, kinds []string, allowFocus bool) Subject {
	s := Subject{Mat: matGen(t, 1, kinds, "mat")}
	s.Normal, s.Fixed = dirsGen(t, "dirs")
	s.Mode = "source"
	if allowFocus && rapid.IntRange(0, 3).Draw(t, "focus") == 0 {
		s.Focus, s.Point = focusGen(t, "focus")
		return s
	}
	if rapid.IntRange(0, 2).Draw(t, "mode") == 0 {
		s.Mode = "dest"
	}
	return s
}
