package c20

// Clause (c): projection and un-projection are inverse and agree with the documented pinhole
// model; NewCameraAt builds an orthonormal frame centred on the target; DirectionalCamera really
// frames the whole bounding box.

import (
	"fmt"
	"math"
	"sort"

	"github.com/unixpickle/model3d/model3d"
	"github.com/unixpickle/model3d/render3d"
	"pgregory.net/rapid"
	"verifharness/gen"
	"verifharness/kit"
	"verifharness/m3"
)

// ---------------------------------------------------------------------------
// Caster / Uncaster

type roundtripCase struct {
	Cam   camDesc      `json:"cam"`
	W     float64      `json:"w"`
	H     float64      `json:"h"`
	Via   string       `json:"via"` // fields | at
	Src   kit.V3       `json:"src"` // for via = at
	Dst   kit.V3       `json:"dst"`
	Probe [][3]float64 `json:"probe"`           // x, y, t
	Shear float64      `json:"shear,omitempty"` // ScreenX = unit(X + Shear*Y): normalised, not perpendicular to ScreenY
}

func genRoundtrip(t *rapid.T) roundtripCase {
	c := roundtripCase{}
	if rapid.Bool().Draw(t, "intsize") {
		c.W, c.H = float64(gen.Int(t, 1, 40, "w")), float64(gen.Int(t, 1, 40, "h"))
	} else {
		c.W, c.H = gen.LogF(t, 0.5, 2000, "w"), gen.LogF(t, 0.5, 2000, "h")
	}
	if rapid.IntRange(0, 5).Draw(t, "square") == 0 {
		c.H = c.W
	}
	origin := gen.Vec3(t, 5, "origin")
	c.Cam = genCamLooking(t, origin, origin.Add(gen.Dir3(t, "look")), 0.02, 3.1, "cam")
	c.Via = "fields"
	if rapid.IntRange(0, 4).Draw(t, "sheared") == 0 {
		// the documentation asks for normalised screen axes, not for perpendicular ones (an edited or hand-written
		// camera): Uncaster still inverts Caster
		c.Shear = gen.F(t, 0.02, 0.7, "shear") * float64(2*rapid.IntRange(0, 1).Draw(t, "shearsign")-1)
		c.Cam.X = c.Cam.X.Add(c.Cam.Y.Scale(c.Shear)).Unit()
	} else if rapid.IntRange(0, 3).Draw(t, "via") == 0 {
		c.Via = "at"
		c.Src, c.Dst = origin, origin.Add(gen.Dir3(t, "look2").Scale(gen.LogF(t, 0.01, 100, "dist")))
		c.Cam.Fov = math.Abs(c.Cam.Fov)
	}
	n := rapid.IntRange(1, 6).Draw(t, "nprobe")
	for i := 0; i < n; i++ {
		x, y := gen.F(t, -0.5, 1.5, "px")*c.W, gen.F(t, -0.5, 1.5, "py")*c.H
		switch rapid.IntRange(0, 5).Draw(t, "special") {
		case 0:
			x, y = 0, 0
		case 1:
			x, y = c.W, c.H
		case 2:
			x, y = math.Round(x), math.Round(y)
		}
		c.Probe = append(c.Probe, [3]float64{x, y, gen.LogF(t, 1e-3, 1e3, "t")})
	}
	return c
}

func checkRoundtrip(c roundtripCase, o *kit.Obs) error {
	cam := c.Cam.build()
	ref := c.Cam
	if c.Via == "at" {
		cam = render3d.NewCameraAt(m3.C3(c.Src), m3.C3(c.Dst), c.Cam.Fov)
		ref = camOf(cam) // its frame is checked by the look-at clause
	}
	o.Label("via:" + c.Via)
	if ref.Fov < 0 {
		o.Label("negative-fov")
	}
	cast, uncast := cam.Caster(c.W, c.H), cam.Uncaster(c.W, c.H)
	scale := c.W + c.H
	for _, p := range c.Probe {
		x, y, t := p[0], p[1], p[2]
		d := cast(x, y)
		// the documented pinhole: longer side spans the field of view, square pixels, viewing direction
		// sign(fov) * ScreenX x ScreenY
		want := ref.dir(x, y, c.W, c.H)
		dv := m3.V3(d)
		if e := dv.Unit().Sub(want.Unit()).Norm(); c.Shear == 0 && !(e <= 1e-12) {
			return fmt.Errorf("Caster(%g,%g)(%g,%g) = %v is not along the pinhole direction %v (angle %g)", c.W, c.H, x, y, dv, want, e)
		}
		pt := cam.Origin.Add(d.Scale(t))
		gx, gy := uncast(pt)
		// conditioning: the inverse of the axes matrix with plane distance 1/tan(fov/2) in [0.02, 100]
		if tol := 1e-9 * (scale + math.Abs(x) + math.Abs(y)); !(math.Abs(gx-x) <= tol && math.Abs(gy-y) <= tol) {
			return fmt.Errorf("Uncaster(origin + %g*Caster(%g,%g)) = (%.12g, %.12g) on a %gx%g image", t, x, y, gx, gy, c.W, c.H)
		}
		if c.Shear != 0 {
			continue // the reference below is written for perpendicular axes
		}
		// and against the reference projection
		rx, ry, lambda := ref.project(m3.V3(pt), c.W, c.H)
		if !(lambda > 0) {
			return fmt.Errorf("Caster(%g,%g) points behind the camera (field of view %g)", x, y, ref.Fov)
		}
		if tol := 1e-9 * (scale + math.Abs(x) + math.Abs(y)); !(math.Abs(rx-x) <= tol && math.Abs(ry-y) <= tol) {
			return fmt.Errorf("the point origin + %g*Caster(%g,%g) projects to (%.12g, %.12g) in the pinhole model", t, x, y, rx, ry)
		}
	}
	if c.Shear != 0 {
		o.Label("sheared-axes")
		o.NonTrivial()
		return nil
	}
	// the field of view is the angle across the longer side, through the image centre
	var a, b model3d.Coord3D
	if c.W >= c.H {
		a, b = cast(0, c.H/2), cast(c.W, c.H/2)
	} else {
		a, b = cast(c.W/2, 0), cast(c.W/2, c.H)
	}
	ang := math.Atan2(a.Cross(b).Norm(), a.Dot(b))
	if !(math.Abs(ang-math.Abs(ref.Fov)) <= 1e-9) {
		return fmt.Errorf("the rays through the ends of the longer side of a %gx%g image span %.12g rad, FieldOfView = %g", c.W, c.H, ang, ref.Fov)
	}
	if c.W != c.H {
		o.NonTrivial()
	}
	return nil
}

// ---------------------------------------------------------------------------
// NewCameraAt

type lookAtCase struct {
	Src kit.V3  `json:"src"`
	Dst kit.V3  `json:"dst"`
	Fov float64 `json:"fov"`
}

func genLookAt(t *rapid.T) lookAtCase {
	c := lookAtCase{Src: gen.Vec3(t, 5, "src")}
	var d kit.V3
	switch rapid.IntRange(0, 5).Draw(t, "class") {
	case 0: // exactly vertical: no well-defined x axis
		d = kit.V3{0, 0, 1}
		if rapid.Bool().Draw(t, "down") {
			d[2] = -1
		}
	case 1: // nearly vertical, on both sides of the library's 1e-5 threshold
		h := gen.LogF(t, 1e-9, 1e-2, "tilt")
		a := gen.F(t, 0, 2*math.Pi, "azimuth")
		d = kit.V3{h * math.Cos(a), h * math.Sin(a), 1}
		if rapid.Bool().Draw(t, "down") {
			d[2] = -1
		}
	default:
		d = gen.Dir3(t, "dir")
	}
	c.Dst = c.Src.Add(d.Unit().Scale(gen.LogF(t, 1e-2, 1e3, "dist")))
	switch rapid.IntRange(0, 4).Draw(t, "fovclass") {
	case 0:
		c.Fov = 0 // documented: DefaultFieldOfView
	default:
		c.Fov = gen.LogF(t, 0.02, 3.1, "fov")
	}
	return c
}

func checkLookAt(c lookAtCase, o *kit.Obs) error {
	cam := render3d.NewCameraAt(m3.C3(c.Src), m3.C3(c.Dst), c.Fov)
	x, y := m3.V3(cam.ScreenX), m3.V3(cam.ScreenY)
	look := c.Dst.Sub(c.Src).Unit()
	if h := math.Hypot(look[0], look[1]); h < 1e-4 {
		o.Label("near-vertical")
	}
	if m3.V3(cam.Origin) != c.Src {
		return fmt.Errorf("camera origin %v, want the source %v", cam.Origin, c.Src)
	}
	wantFov := c.Fov
	if wantFov == 0 {
		wantFov = render3d.DefaultFieldOfView
		o.Label("default-fov")
	}
	if cam.FieldOfView != wantFov {
		return fmt.Errorf("field of view %g, want %g", cam.FieldOfView, wantFov)
	}
	const tol = 1e-12
	if math.Abs(x.Norm()-1) > tol || math.Abs(y.Norm()-1) > tol {
		return fmt.Errorf("image axes are not unit vectors: |x| = %.17g, |y| = %.17g", x.Norm(), y.Norm())
	}
	if math.Abs(x.Dot(y)) > tol || math.Abs(x.Dot(look)) > tol || math.Abs(y.Dot(look)) > tol {
		return fmt.Errorf("image axes x=%v y=%v are not orthogonal to each other and to the viewing direction %v (dots %g %g %g)", x, y, look, x.Dot(y), x.Dot(look), y.Dot(look))
	}
	// right-hand rule (Camera doc): rays of sight go along ScreenX x ScreenY for a positive field of view
	if e := x.Cross(y).Sub(look).Norm(); e > 1e-11 {
		return fmt.Errorf("ScreenX x ScreenY = %v, but the target is in direction %v", x.Cross(y), look)
	}
	// the target is seen in the centre of any image
	for _, wh := range [][2]float64{{1, 1}, {16, 8}, {5, 33}} {
		gx, gy := cam.Uncaster(wh[0], wh[1])(m3.C3(c.Dst))
		if math.Abs(gx-wh[0]/2) > 1e-9*wh[0] || math.Abs(gy-wh[1]/2) > 1e-9*wh[1] {
			return fmt.Errorf("the target projects to (%.12g, %.12g) on a %gx%g image, not to the centre", gx, gy, wh[0], wh[1])
		}
		rx, ry, lambda := camOf(cam).project(c.Dst, wh[0], wh[1])
		if !(lambda > 0) || math.Abs(rx-wh[0]/2) > 1e-9*wh[0] || math.Abs(ry-wh[1]/2) > 1e-9*wh[1] {
			return fmt.Errorf("pinhole model: the target projects to (%.12g, %.12g), lambda %g, on a %gx%g image", rx, ry, lambda, wh[0], wh[1])
		}
	}
	o.NonTrivial()
	return nil
}

// ---------------------------------------------------------------------------
// DirectionalCamera

type dirCamCase struct {
	Center kit.V3      `json:"center"`
	Half   kit.V3      `json:"half"`
	Dir    kit.V3      `json:"dir"` // unit
	Fov    float64     `json:"fov"`
	Xf     *gen.Xform3 `json:"xform,omitempty"` // the object is a wrapped box; only its bounds matter
}

func genDirCam(t *rapid.T) dirCamCase {
	c := dirCamCase{Center: gen.Vec3(t, 5, "center")}
	s := gen.LogF(t, 0.05, 20, "size")
	switch rapid.IntRange(0, 2).Draw(t, "shape") {
	case 0: // roughly cubical
		c.Half = kit.V3{s * gen.F(t, 0.6, 1, "hx"), s * gen.F(t, 0.6, 1, "hy"), s * gen.F(t, 0.6, 1, "hz")}
	default: // plates and rods
		c.Half = kit.V3{s * gen.LogF(t, 0.01, 1, "hx"), s * gen.LogF(t, 0.01, 1, "hy"), s * gen.LogF(t, 0.01, 1, "hz")}
	}
	c.Dir = gen.Dir3(t, "dir").Unit()
	c.Fov = gen.LogF(t, 0.05, 3, "fov")
	if rapid.IntRange(0, 3).Draw(t, "xf") == 0 {
		x := genSimilarity(t, "xf")
		c.Xf = &x
	}
	return c
}

// framingTrap reports whether DirectionalCamera's containment test, which does not look at the sign of the
// depth, is also satisfied for some camera distance at which a corner is behind the camera (the class of the
// known finding dircam-behind).  half: box half extents seen from its centre.
func framingTrap(cam camDesc, center, half, dir kit.V3, fov float64) bool {
	// per corner v the test fails exactly for distances d with |d - v.dir| <= w_v, w_v = max lateral / (0.9 tan(fov/2))
	type iv struct{ lo, hi float64 }
	var ivs []iv
	far := 0.0
	tanh := math.Tan(fov / 2)
	for i := 0; i < 8; i++ {
		v := kit.V3{half[0], half[1], half[2]}
		for k := 0; k < 3; k++ {
			if i>>k&1 == 1 {
				v[k] = -v[k]
			}
		}
		u := v.Dot(dir)
		w := math.Max(math.Abs(v.Dot(cam.X)), math.Abs(v.Dot(cam.Y))) / (0.9 * tanh)
		ivs = append(ivs, iv{u - w, u + w})
		far = math.Max(far, u+w)
	}
	sort.Slice(ivs, func(i, j int) bool { return ivs[i].lo < ivs[j].lo })
	minDist := 2 * half.Norm() * 1e-4
	covered := minDist
	for _, v := range ivs {
		if v.lo > covered*(1+1e-9) {
			return true // a gap of passing distances below the true threshold
		}
		covered = math.Max(covered, v.hi)
	}
	return covered < far
}

func checkDirCam(c dirCamCase, o *kit.Obs) error {
	var obj render3d.Object = &render3d.ColliderObject{Collider: &model3d.Rect{MinVal: m3.C3(c.Center.Sub(c.Half)), MaxVal: m3.C3(c.Center.Add(c.Half))}}
	if c.Xf != nil {
		obj = wrap(obj, *c.Xf)
		o.Label("wrapped-object")
	}
	lo, hi := m3.V3(obj.Min()), m3.V3(obj.Max())
	center, half := lo.Mid(hi), hi.Sub(lo).Scale(0.5)
	cam := render3d.DirectionalCamera(obj, m3.C3(c.Dir), c.Fov)
	rc := camOf(cam)
	trap := framingTrap(rc, center, half, c.Dir, c.Fov)
	if trap {
		o.Label("trap:passing-distances-with-corners-behind")
		if kit.Excluded("dircam-behind") {
			kit.CountExcluded("dircam-behind")
			return nil
		}
	}
	if cam.FieldOfView != c.Fov {
		return fmt.Errorf("camera field of view %g, requested %g", cam.FieldOfView, c.Fov)
	}
	// documented: the camera is moved from the centre of the bounding box in the given direction
	off := rc.Origin.Sub(center)
	dist := off.Norm()
	size := half.Norm()
	if e := off.Sub(c.Dir.Scale(off.Dot(c.Dir))).Norm(); e > 1e-9*(dist+c.Center.MaxAbs()+size) || off.Dot(c.Dir) <= 0 {
		return fmt.Errorf("camera origin %v is not on the ray from the box centre %v along %v", rc.Origin, center, c.Dir)
	}
	// the whole bounding box is in the (square) picture: in front of the camera and inside [0,1]^2
	for i := 0; i < 8; i++ {
		p := lo
		for k := 0; k < 3; k++ {
			if i>>k&1 == 1 {
				p[k] = hi[k]
			}
		}
		x, y, lambda := rc.project(p, 1, 1)
		if !(lambda > 0) {
			return fmt.Errorf("corner %v of the bounding box [%v, %v] is behind the camera at %v (distance %g from the centre, box radius %g) looking along %v, fov %g",
				p, lo, hi, rc.Origin, dist, size, c.Dir.Scale(-1), c.Fov)
		}
		if !(x >= -1e-9 && x <= 1+1e-9 && y >= -1e-9 && y <= 1+1e-9) {
			return fmt.Errorf("corner %v of the bounding box projects to (%.6g, %.6g), outside the unit image; camera at distance %g, box radius %g, fov %g", p, x, y, dist, size, c.Fov)
		}
	}
	if math.Abs(c.Fov-math.Pi/3.6) > 0.1 {
		o.NonTrivial()
	}
	mx := math.Max(c.Half[0], math.Max(c.Half[1], c.Half[2]))
	mn := math.Min(c.Half[0], math.Min(c.Half[1], c.Half[2]))
	if mx > 8*mn {
		o.Label("elongated-or-flat")
	}
	return nil
}
