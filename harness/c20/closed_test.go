package c20

// Clause (b): scenes whose radiance is known in closed form.
//
//   emitter : camera inside a uniformly emitting enclosure (sphere / box collider / inward-facing
//             box mesh), optionally around a small convex matte ball, optionally with diffusely
//             reflecting walls (furnace).  RayCaster and RecursiveRayTracer are deterministic here
//             (a cosine-sampled bounce off a Lambert surface has weight exactly rho).
//   bidir   : the same enclosure as a mesh area light around a matte ball under BidirPathTracer:
//             wall pixels are exactly E, ball pixels are rho*E in expectation.
//   matte   : a matte parallelogram (+ optional ball) under point lights; the formula below is
//             derived from raycast.go / light.go / material.go.

import (
	"fmt"
	"math"
	"math/rand"

	"github.com/unixpickle/model3d/model3d"
	"github.com/unixpickle/model3d/render3d"
	"pgregory.net/rapid"
	"verifharness/gen"
	"verifharness/kit"
	"verifharness/m3"
)

func meshOf(tris []kit.Tri) *model3d.Mesh { return m3.MeshFromTris(tris) }

// inwardBox lists the 12 triangles of the box [-h, h] with normals pointing to the inside.
func inwardBox(h kit.V3) []kit.Tri {
	var out []kit.Tri
	for ax := 0; ax < 3; ax++ {
		u, v := (ax+1)%3, (ax+2)%3
		for _, side := range []float64{-1, 1} {
			var p, du, dv kit.V3
			p[ax] = side * h[ax]
			p[u], p[v] = -h[u], -h[v]
			du[u] = 2 * h[u]
			dv[v] = 2 * h[v]
			q := quad{P: p, U: du, V: dv} // normal = +ax
			if side > 0 {
				q = quad{P: p, U: dv, V: du} // normal = -ax: inward on the far side
			}
			out = append(out, q.tris()...)
		}
	}
	return out
}

// ---------------------------------------------------------------------------
// emitter enclosure, deterministic renderers

type ball struct {
	C   kit.V3  `json:"c"`
	R   float64 `json:"r"`
	Rho rgb     `json:"rho"`
	Amb rgb     `json:"ambient"`
}

type emitCase struct {
	W          int         `json:"w"`
	H          int         `json:"h"`
	Cam        camDesc     `json:"cam"`
	Encl       string      `json:"enclosure"` // sphere | rect | mesh
	Half       kit.V3      `json:"half"`      // box half extents; sphere radius = Half[0]
	E          rgb         `json:"emission"`
	A          rgb         `json:"ambient"`
	WallRho    rgb         `json:"wall_rho"` // mesh only
	Ball       *ball       `json:"ball,omitempty"`
	Renderer   string      `json:"renderer"` // raycast | rrt
	MaxDepth   int         `json:"max_depth"`
	NumSamples int         `json:"num_samples"`
	Cutoff     float64     `json:"cutoff"`
	Xf         *gen.Xform3 `json:"xform,omitempty"` // similarity applied to the scene and the camera alike
	Container  string      `json:"container"`       // joined | bvh
}

func genEmit(t *rapid.T) emitCase {
	c := emitCase{W: gen.Int(t, 1, 17, "w"), H: gen.Int(t, 1, 9, "h")}
	if rapid.IntRange(0, 9).Draw(t, "tiny") == 0 {
		c.W, c.H = gen.Int(t, 1, 2, "w2"), gen.Int(t, 1, 2, "h2")
	}
	c.Encl = rapid.SampledFrom([]string{"sphere", "rect", "mesh", "mesh"}).Draw(t, "encl")
	c.Half = kit.V3{gen.F(t, 3.5, 9, "hx"), gen.F(t, 3.5, 9, "hy"), gen.F(t, 3.5, 9, "hz")}
	c.E = genRGB(t, 0.05, 3, "E")
	if rapid.Bool().Draw(t, "amb") {
		c.A = genRGB(t, 0, 0.4, "A")
	}
	c.Renderer = rapid.SampledFrom([]string{"raycast", "rrt", "rrt"}).Draw(t, "renderer")
	origin := gen.Dir3(t, "camdir").Unit().Scale(gen.F(t, 1.7, 2.9, "camdist"))
	c.Cam = genCamLooking(t, origin, gen.Vec3(t, 0.9, "target"), 0.1, 2.8, "cam")
	c.MaxDepth = gen.Int(t, 0, 5, "maxdepth")
	c.NumSamples = gen.Int(t, 1, 4, "numsamples")
	furnace := c.Encl == "mesh" && c.Renderer == "rrt" && rapid.Bool().Draw(t, "furnace")
	if furnace {
		c.WallRho = genRGB(t, 0.05, 0.95, "wallrho")
		if rapid.Bool().Draw(t, "cutoff") {
			c.Cutoff = gen.LogF(t, 1e-3, 0.9, "cutoff.v")
		}
	} else if rapid.IntRange(0, 3).Draw(t, "ball") > 0 {
		c.Ball = &ball{C: gen.Vec3(t, 0.2, "ball.c"), R: gen.F(t, 0.3, 1, "ball.r"), Rho: genRGB(t, 0.05, 1, "ball.rho")}
		if rapid.Bool().Draw(t, "ball.amb") {
			c.Ball.Amb = genRGB(t, 0, 0.4, "ball.A")
		}
	}
	if rapid.IntRange(0, 2).Draw(t, "xf") == 0 {
		x := genSimilarity(t, "xf")
		c.Xf = &x
	}
	c.Container = rapid.SampledFrom([]string{"joined", "bvh"}).Draw(t, "container")
	return c
}

func container(kind string, parts []render3d.Object) render3d.Object {
	if kind == "bvh" {
		return render3d.BVHToObject(model3d.NewBVHAreaDensity(parts))
	}
	return render3d.JoinedObject(parts)
}

// xfCam moves a camera with a similarity transform.
func xfCam(c camDesc, x *gen.Xform3) camDesc {
	if x == nil {
		return c
	}
	return camDesc{Origin: x.RefApply(c.Origin), X: x.RefApplyDir(c.X).Unit(), Y: x.RefApplyDir(c.Y).Unit(), Fov: c.Fov}
}

func checkEmit(c emitCase, o *kit.Obs) error {
	if c.W == 1 || c.H == 1 {
		o.Label("one-pixel-axis")
		if kit.Excluded("one-pixel-axis") {
			kit.CountExcluded("one-pixel-axis")
			return nil
		}
	}
	wallMat := &render3d.LambertMaterial{EmissionColor: c.E.col(), AmbientColor: c.A.col(), DiffuseColor: c.WallRho.col()}
	var wall render3d.Object
	switch c.Encl {
	case "sphere":
		wall = &render3d.ColliderObject{Collider: &model3d.Sphere{Radius: c.Half[0]}, Material: wallMat}
	case "rect":
		wall = &render3d.ColliderObject{Collider: &model3d.Rect{MinVal: m3.C3(c.Half.Scale(-1)), MaxVal: m3.C3(c.Half)}, Material: wallMat}
	default:
		wall = &render3d.ColliderObject{Collider: model3d.MeshToCollider(meshOf(inwardBox(c.Half))), Material: wallMat}
	}
	parts := []render3d.Object{wall}
	if c.Ball != nil {
		parts = append(parts, &render3d.ColliderObject{Collider: &model3d.Sphere{Center: m3.C3(c.Ball.C), Radius: c.Ball.R},
			Material: &render3d.LambertMaterial{DiffuseColor: c.Ball.Rho.col(), AmbientColor: c.Ball.Amb.col()}})
	}
	scene := container(c.Container, parts)
	cam := c.Cam
	if c.Xf != nil {
		scene = wrap(scene, *c.Xf)
		cam = xfCam(cam, c.Xf)
		o.Label("transformed-scene")
	}
	render := func() *render3d.Image {
		img := render3d.NewImage(c.W, c.H)
		if c.Renderer == "rrt" {
			img.SetAll(model3d.XYZ(-7, -7, -7))
			(&render3d.RecursiveRayTracer{Camera: cam.build(), MaxDepth: c.MaxDepth, NumSamples: c.NumSamples, Cutoff: c.Cutoff}).Render(img, scene)
		} else {
			(&render3d.RayCaster{Camera: cam.build()}).Render(img, scene)
		}
		return img
	}
	o.Label("renderer:" + c.Renderer)
	o.Label("enclosure:" + c.Encl)

	// closed forms
	var wallWant, ballWant rgb
	furnace := c.WallRho != rgb{}
	for ch := 0; ch < 3; ch++ {
		wallWant[ch] = c.E[ch] + c.A[ch]
		if c.Ball != nil {
			ballWant[ch] = c.Ball.Amb[ch]
		}
	}
	if c.Renderer == "rrt" {
		if furnace {
			// every bounce off a wall sees a wall: L = A + E * sum_{k<=D} rho^k, a term being dropped when
			// the mean path weight falls below Cutoff (documented bias of Cutoff)
			o.Label("furnace")
			pw := rgb{1, 1, 1}
			sum := rgb{}
			for k := 0; k <= c.MaxDepth; k++ {
				mean := (pw[0] + pw[1] + pw[2]) / 3
				if c.Cutoff > 0 && math.Abs(mean-c.Cutoff) < 1e-9*c.Cutoff {
					o.Skip("path weight equals Cutoff")
					return nil
				}
				if mean < c.Cutoff {
					o.Label("cutoff-truncates")
					break
				}
				for ch := 0; ch < 3; ch++ {
					sum[ch] += pw[ch]
					pw[ch] *= c.WallRho[ch]
				}
			}
			for ch := 0; ch < 3; ch++ {
				wallWant[ch] = c.A[ch] + c.E[ch]*sum[ch]
			}
		} else if c.Ball != nil && c.MaxDepth >= 1 {
			// a convex ball sees only the enclosure, whose walls are black apart from their emission
			for ch := 0; ch < 3; ch++ {
				ballWant[ch] += c.Ball.Rho[ch] * c.E[ch]
			}
		}
	}
	maxX, maxY := float64(c.W-1), float64(c.H-1)
	nball := 0
	compare := func(img *render3d.Image) error {
		nball = 0
		for idx, got := range img.Data {
			x, y := idx%c.W, idx/c.W
			want := wallWant
			what := "wall"
			if c.Ball != nil {
				h := raySphere(c.Cam.Origin, c.Cam.dir(float64(x), float64(y), maxX, maxY), c.Ball.C, c.Ball.R)
				if h.margin < 1e-6 {
					o.Label("skip-pixel:silhouette")
					continue
				}
				if h.ok {
					want, what = ballWant, "ball"
					nball++
				}
			}
			// furnace: D products of (1/density)*cos*BSDF, each with a few ulps of error
			if e := relErr(m3.V3(got), kit.V3(want)); !(e <= 1e-11) {
				return fmt.Errorf("%s pixel (%d,%d) of %dx%d (%s, depth %d, %d samples) = %v, closed form %v", what, x, y, c.W, c.H, c.Renderer, c.MaxDepth, c.NumSamples, colArr(got), want)
			}
		}
		return nil
	}
	err := compare(render())
	if err != nil && furnace {
		// A bounce ray starts 1e-8 off the wall.  With probability ~1e-9 per bounce that start lies beyond an
		// adjacent wall (or the rounded hit point lies behind its own wall at grazing exit), and the path leaves the
		// furnace: inherent to epsilon-offset ray tracing, not a bookkeeping error.  The random bounces differ
		// from render to render whereas an estimator error is systematic: confirm twice.
		for i := 0; i < 2 && err != nil; i++ {
			o.Label("furnace-retry")
			err = compare(render())
		}
	}
	if err != nil {
		return err
	}
	if c.Ball != nil {
		if nball > 0 && nball < c.W*c.H {
			o.Label("ball-partly-visible")
		}
	}
	if furnace || nball > 0 || c.Xf != nil {
		o.NonTrivial()
	}
	return nil
}

// ---------------------------------------------------------------------------
// bidirectional path tracer, statistically

type bidirCase struct {
	W, H           int
	Cam            camDesc `json:"cam"`
	Half           kit.V3  `json:"half"`
	Split          bool    `json:"split"` // the walls are two joined area lights
	E              rgb     `json:"emission"`
	Ball           ball    `json:"ball"`
	MaxDepth       int     `json:"max_depth"`
	MaxLightDepth  int     `json:"max_light_depth"`
	MinDepth       int     `json:"min_depth"`
	RouletteDelta  float64 `json:"roulette_delta"`
	PowerHeuristic float64 `json:"power_heuristic"`
	Cutoff         float64 `json:"cutoff"`
	NumSamples     int     `json:"num_samples"`
	Renders        int     `json:"renders"`
	Seed           int64   `json:"seed"`
	// WallRho > 0: the REFLECTIVE furnace.  No ball; every wall emits E and is a Lambert reflector of albedo WallRho
	// (an area light whose surface material also reflects).  Every bounce sees the same radiance, so a path with k
	// scattering events contributes E*rho^k whatever its geometry: the image is E * sum_{k=0..K} rho^k at every
	// pixel, K the largest number of scattering events of any path the settings allow.  This is the only closed
	// form here with INDIRECT light, i.e. the only one in which the light sub-path strategies and their weights matter.
	WallRho float64 `json:"wall_rho,omitempty"`
}

// reflLight is an area light whose surface also reflects: sampling and power come from the wrapped light, the
// material seen by rays has the same emission plus a diffuse albedo.
type reflLight struct {
	render3d.AreaLight
	mat render3d.Material
}

func (r *reflLight) Cast(ray *model3d.Ray) (model3d.RayCollision, render3d.Material, bool) {
	rc, _, ok := r.AreaLight.Cast(ray)
	return rc, r.mat, ok
}

func genBidir(t *rapid.T) bidirCase {
	c := bidirCase{W: gen.Int(t, 3, 7, "w"), H: gen.Int(t, 3, 6, "h")}
	c.Half = kit.V3{gen.F(t, 3.5, 7, "hx"), gen.F(t, 3.5, 7, "hy"), gen.F(t, 3.5, 7, "hz")}
	c.Split = rapid.Bool().Draw(t, "split")
	c.E = genRGB(t, 0.3, 3, "E")
	c.Ball = ball{C: gen.Vec3(t, 0.2, "ball.c"), R: gen.F(t, 0.5, 1, "ball.r"), Rho: genRGB(t, 0.2, 1, "ball.rho")}
	origin := gen.Dir3(t, "camdir").Unit().Scale(gen.F(t, 1.8, 2.9, "camdist"))
	c.Cam = genCamLooking(t, origin, gen.Vec3(t, 0.3, "target"), 0.4, 1.6, "cam")
	c.MaxDepth = gen.Int(t, 1, 6, "maxdepth")
	c.MaxLightDepth = rapid.SampledFrom([]int{0, 0, 1, 2, 3}).Draw(t, "maxlightdepth")
	c.MinDepth = rapid.SampledFrom([]int{0, 0, 1, 2}).Draw(t, "mindepth")
	c.RouletteDelta = rapid.SampledFrom([]float64{0, 0, 0.05, 0.5}).Draw(t, "roulette")
	c.PowerHeuristic = rapid.SampledFrom([]float64{0, 0, 1, 2}).Draw(t, "power")
	c.Cutoff = rapid.SampledFrom([]float64{0, 0, 0.05, 0.3}).Draw(t, "cutoff")
	c.NumSamples, c.Renders = 48, 8
	if kit.Tier() == "thorough" {
		c.NumSamples, c.Renders = 160, 12
	}
	c.Seed = int64(rapid.Uint64().Draw(t, "seed") >> 2)
	if gen.Int(t, 0, 2, "reflective") == 0 {
		c.WallRho = gen.F(t, 0.3, 0.8, "wallrho")
		c.MaxDepth = gen.Int(t, 2, 5, "maxdepth2")
		c.MaxLightDepth = gen.Int(t, 0, c.MaxDepth, "maxlightdepth2")
		// in the bidirectional tracer Cutoff is a roulette as well (a path survives with probability mean/Cutoff and is
		// scaled by the inverse): unbiased, so the closed form holds; large values make it fire at every bounce
		c.Cutoff = rapid.SampledFrom([]float64{0, 0, 0.3, 0.6, 0.9}).Draw(t, "cutoff2")
	}
	return c
}

func checkBidir(c bidirCase, o *kit.Obs) error {
	tris := inwardBox(c.Half)
	var light render3d.AreaLight
	if c.Split {
		k := 4 + int(c.Seed%5)
		light = render3d.JoinAreaLights(render3d.NewMeshAreaLight(meshOf(tris[:k]), c.E.col()), render3d.NewMeshAreaLight(meshOf(tris[k:]), c.E.col()))
		o.Label("joined-light")
	} else {
		light = render3d.NewMeshAreaLight(meshOf(tris), c.E.col())
	}
	if c.WallRho > 0 {
		return checkReflectiveFurnace(c, light, o)
	}
	scene := render3d.JoinedObject{light, &render3d.ColliderObject{Collider: &model3d.Sphere{Center: m3.C3(c.Ball.C), Radius: c.Ball.R},
		Material: &render3d.LambertMaterial{DiffuseColor: c.Ball.Rho.col()}}}
	bpt := &render3d.BidirPathTracer{Camera: c.Cam.build(), Light: light, MaxDepth: c.MaxDepth, MaxLightDepth: c.MaxLightDepth, MinDepth: c.MinDepth,
		RouletteDelta: c.RouletteDelta, PowerHeuristic: c.PowerHeuristic, Cutoff: c.Cutoff, NumSamples: c.NumSamples}
	maxX, maxY := float64(c.W-1), float64(c.H-1)
	onBall := make([]int, c.W*c.H) // 1 ball, 0 wall, -1 undecided
	nball := 0
	for idx := range onBall {
		h := raySphere(c.Cam.Origin, c.Cam.dir(float64(idx%c.W), float64(idx/c.W), maxX, maxY), c.Ball.C, c.Ball.R)
		switch {
		case h.margin < 1e-6:
			onBall[idx] = -1
		case h.ok:
			onBall[idx] = 1
			nball++
		}
	}
	// the renderer seeds its per-worker generators from the global source
	rand.Seed(c.Seed)
	var dev [3][]float64 // relative deviations of ball pixels from rho*E, one per pixel and render
	for r := 0; r < c.Renders; r++ {
		img := render3d.NewImage(c.W, c.H)
		bpt.Render(img, scene)
		for idx, got := range img.Data {
			g := colArr(got)
			switch onBall[idx] {
			case 0:
				// a wall pixel: the emitter seen directly, the only path with a contribution, weight 1
				if e := relErr(m3.V3(got), kit.V3(c.E)); !(e <= 1e-12) {
					return fmt.Errorf("wall pixel %d = %v, emission %v", idx, g, c.E)
				}
			case 1:
				for ch := 0; ch < 3; ch++ {
					if math.IsNaN(g[ch]) || math.IsInf(g[ch], 0) || g[ch] < 0 {
						return fmt.Errorf("ball pixel %d channel %d = %v", idx, ch, g[ch])
					}
					dev[ch] = append(dev[ch], g[ch]/(c.Ball.Rho[ch]*c.E[ch])-1)
				}
			}
		}
	}
	o.Labelf("maxdepth:%d", c.MaxDepth)
	if nball < 3 {
		o.Label("ball-hardly-visible")
		return nil
	}
	o.NonTrivial()
	for ch := 0; ch < 3; ch++ {
		n := float64(len(dev[ch]))
		var m, s2 float64
		for _, d := range dev[ch] {
			m += d
		}
		m /= n
		for _, d := range dev[ch] {
			s2 += (d - m) * (d - m)
		}
		se := math.Sqrt(s2 / (n - 1) / n)
		z := m / se
		// two-sided normal tail below 1e-9 needs |z| > 6.11; cells are means of NumSamples bounded-ish samples and
		// there are >= 24 of them; 7 leaves room for the t-like tail.  Effect-size floor 2.5%: a wrong estimator is
		// off by a setting-dependent factor, not by a fraction of a percent.
		if math.Abs(z) > 7 && math.Abs(m) > 0.025 {
			return fmt.Errorf("ball pixels channel %d: mean radiance / (rho*E) - 1 = %+.4f +- %.4f over %d pixel estimates of %d samples (z = %.1f); a convex matte ball inside a uniform emitter has radiance rho*E",
				ch, m, se, len(dev[ch]), c.NumSamples, z)
		}
		if math.Abs(z) > 4.5 {
			o.Label("z>4.5")
		}
	}
	return nil
}

// checkReflectiveFurnace: see bidirCase.WallRho.  Path lengths: MaxDepth is documented as the maximum number of edges
// "in either direction" and MaxLightDepth as the limit on light path vertices (0: none beyond MaxDepth).  A full path
// joins an eye sub-path of up to MaxDepth edges to a light sub-path of up to L vertices by one more edge, so it has up to
// MaxDepth + L edges and MaxDepth + L - 1 scattering events, with L = MaxLightDepth, or MaxDepth when MaxLightDepth is 0
// (calibrated on the unchanged tree for 1 <= MaxLightDepth <= MaxDepth and for 0: twenty settings within 0.7%).
func checkReflectiveFurnace(c bidirCase, base render3d.AreaLight, o *kit.Obs) error {
	o.Label("reflective-furnace")
	L := c.MaxLightDepth
	if L == 0 {
		L = c.MaxDepth
	}
	if L > c.MaxDepth {
		return fmt.Errorf("%w: MaxLightDepth beyond MaxDepth is outside the calibrated domain", kit.ErrInfra)
	}
	K := c.MaxDepth + L - 1
	geo, p := 0.0, 1.0
	for k := 0; k <= K; k++ {
		geo += p
		p *= c.WallRho
	}
	o.Labelf("maxdepth:%d", c.MaxDepth)
	o.Labelf("maxlightdepth:%d", c.MaxLightDepth)
	light := &reflLight{AreaLight: base, mat: &render3d.LambertMaterial{DiffuseColor: render3d.NewColor(c.WallRho), EmissionColor: c.E.col()}}
	bpt := &render3d.BidirPathTracer{Camera: c.Cam.build(), Light: light, MaxDepth: c.MaxDepth, MaxLightDepth: c.MaxLightDepth, MinDepth: c.MinDepth,
		RouletteDelta: c.RouletteDelta, PowerHeuristic: c.PowerHeuristic, Cutoff: c.Cutoff, NumSamples: c.NumSamples}
	o.Labelf("cutoff:%g", c.Cutoff)
	rand.Seed(c.Seed)
	var dev [3][]float64
	for r := 0; r < c.Renders; r++ {
		img := render3d.NewImage(c.W, c.H)
		bpt.Render(img, light)
		for idx, got := range img.Data {
			g := colArr(got)
			for ch := 0; ch < 3; ch++ {
				if math.IsNaN(g[ch]) || math.IsInf(g[ch], 0) || g[ch] < 0 {
					return fmt.Errorf("reflective furnace: pixel %d channel %d = %v", idx, ch, g[ch])
				}
				dev[ch] = append(dev[ch], g[ch]/(c.E[ch]*geo)-1)
			}
		}
	}
	o.NonTrivial()
	for ch := 0; ch < 3; ch++ {
		n := float64(len(dev[ch]))
		var m, s2 float64
		for _, d := range dev[ch] {
			m += d
		}
		m /= n
		for _, d := range dev[ch] {
			s2 += (d - m) * (d - m)
		}
		se := math.Sqrt(s2 / (n - 1) / n)
		z := m / se
		// same decision rule as the ball term: |z| > 7 and an effect above 2.5%
		if math.Abs(z) > 7 && math.Abs(m) > 0.025 {
			return fmt.Errorf("reflective furnace (albedo %.3f, MaxDepth %d, MaxLightDepth %d: paths with up to %d scattering events): mean radiance / (E * %.4f) - 1 = %+.4f +- %.4f over %d pixel estimates of %d samples (z = %.1f)",
				c.WallRho, c.MaxDepth, c.MaxLightDepth, K, geo, m, se, len(dev[ch]), c.NumSamples, z)
		}
		if math.Abs(m) > 0.015 {
			o.Label("furnace-deviation>1.5%")
		}
	}
	return nil
}

// ---------------------------------------------------------------------------
// matte surfaces under point lights

type lightDesc struct {
	P     kit.V3 `json:"p"`
	Color rgb    `json:"color"`
	Quad  bool   `json:"quad_dropoff"`
}

type lambert struct {
	Diffuse rgb `json:"diffuse"`
	Ambient rgb `json:"ambient"`
	Emit    rgb `json:"emission"`
}

func (l lambert) mat() render3d.Material {
	return &render3d.LambertMaterial{DiffuseColor: l.Diffuse.col(), AmbientColor: l.Ambient.col(), EmissionColor: l.Emit.col()}
}

type matteCase struct {
	W, H       int
	Cam        camDesc     `json:"cam"`
	Plane      quad        `json:"plane"`
	PlaneMat   lambert     `json:"plane_mat"`
	PlaneXf    *gen.Xform3 `json:"plane_xf,omitempty"`
	Ball       *ball       `json:"ball,omitempty"` // Rho = diffuse, Amb = ambient
	BallXf     *gen.Xform3 `json:"ball_xf,omitempty"`
	Lights     []lightDesc `json:"lights"`
	Renderer   string      `json:"renderer"` // raycast | rrt
	NumSamples int         `json:"num_samples"`
	Container  string      `json:"container"`
}

func genMatte(t *rapid.T) matteCase {
	c := matteCase{W: gen.Int(t, 1, 17, "w"), H: gen.Int(t, 1, 9, "h")}
	// a parallelogram around a generic centre with a generic normal
	ctr := gen.Vec3(t, 1, "ctr")
	n := gen.Dir3(t, "n").Unit()
	x, y := frame(n, gen.F(t, -3, 3, "spin"))
	u := x.Scale(gen.F(t, 2, 6, "ulen"))
	v := y.Scale(gen.F(t, 2, 6, "vlen")).Add(x.Scale(gen.F(t, -1, 1, "shear")))
	c.Plane = quad{P: ctr.Sub(u.Scale(0.5)).Sub(v.Scale(0.5)), U: u, V: v}
	n = c.Plane.normal()
	c.PlaneMat = lambert{Diffuse: genRGB(t, 0, 1, "diffuse"), Ambient: genRGB(t, 0, 0.3, "ambient")}
	if rapid.Bool().Draw(t, "emit") {
		c.PlaneMat.Emit = genRGB(t, 0, 0.5, "emission")
	}
	nl := rapid.IntRange(1, 2).Draw(t, "nlights")
	for i := 0; i < nl; i++ {
		side := 1.0
		if rapid.IntRange(0, 4).Draw(t, "lightside") == 0 {
			side = -1 // behind the surface: no diffuse term
		}
		p := ctr.Add(n.Scale(side * gen.F(t, 0.8, 5, "lh"))).Add(x.Scale(gen.F(t, -4, 4, "lx"))).Add(y.Scale(gen.F(t, -4, 4, "ly")))
		c.Lights = append(c.Lights, lightDesc{P: p, Color: genRGB(t, 0.2, 3, "lcolor"), Quad: rapid.Bool().Draw(t, "quad")})
	}
	if rapid.IntRange(0, 2).Draw(t, "ball") > 0 {
		// between the first light and the surface, clear of both
		l := c.Lights[0].P
		foot := ctr.Add(x.Scale(gen.F(t, -1, 1, "bx"))).Add(y.Scale(gen.F(t, -1, 1, "by")))
		f := gen.F(t, 0.3, 0.7, "bf")
		bc := foot.Lerp(l, f)
		height := math.Abs(bc.Sub(ctr).Dot(n))
		r := gen.F(t, 0.15, 0.45, "br") * math.Min(height, bc.Dist(l))
		c.Ball = &ball{C: bc, R: r, Rho: genRGB(t, 0, 1, "ball.diffuse"), Amb: genRGB(t, 0, 0.3, "ball.ambient")}
	}
	side := 1.0
	if rapid.IntRange(0, 5).Draw(t, "camside") == 0 {
		side = -1 // looking at the back of a one-sided matte surface
	}
	origin := ctr.Add(n.Scale(side * gen.F(t, 1.5, 7, "ch"))).Add(x.Scale(gen.F(t, -4, 4, "cx"))).Add(y.Scale(gen.F(t, -4, 4, "cy")))
	c.Cam = genCamLooking(t, origin, ctr.Add(x.Scale(gen.F(t, -1.5, 1.5, "tx"))).Add(y.Scale(gen.F(t, -1.5, 1.5, "ty"))), 0.3, 2.2, "cam")
	c.Renderer = rapid.SampledFrom([]string{"raycast", "rrt"}).Draw(t, "renderer")
	c.NumSamples = gen.Int(t, 1, 3, "numsamples")
	c.Container = rapid.SampledFrom([]string{"joined", "bvh"}).Draw(t, "container")
	// object transforms: the description above is the scene as it should look; the library object is
	// the inverse-transformed shape wrapped in the transform
	if rapid.IntRange(0, 2).Draw(t, "pxf") == 0 {
		xf := genSimilarity(t, "pxf")
		c.PlaneXf = &xf
	}
	if c.Ball != nil && rapid.IntRange(0, 2).Draw(t, "bxf") == 0 {
		xf := genSimilarity(t, "bxf")
		c.BallXf = &xf
	}
	return c
}

func checkMatte(c matteCase, o *kit.Obs) error {
	if c.W == 1 || c.H == 1 {
		o.Label("one-pixel-axis")
		if kit.Excluded("one-pixel-axis") {
			kit.CountExcluded("one-pixel-axis")
			return nil
		}
	}
	// library scene.  With a transform T the wrapped object is T^-1(shape), so that the wrapper shows the shape.
	pq := c.Plane
	if c.PlaneXf != nil {
		p0 := c.PlaneXf.RefInverse(pq.P)
		pq = quad{P: p0, U: c.PlaneXf.RefInverse(c.Plane.P.Add(c.Plane.U)).Sub(p0), V: c.PlaneXf.RefInverse(c.Plane.P.Add(c.Plane.V)).Sub(p0)}
	}
	var plane render3d.Object = &render3d.ColliderObject{Collider: model3d.MeshToCollider(meshOf(pq.tris())), Material: c.PlaneMat.mat()}
	if c.PlaneXf != nil {
		plane = wrap(plane, *c.PlaneXf)
		o.Label("plane-transformed")
	}
	parts := []render3d.Object{plane}
	var ballMat lambert
	if c.Ball != nil {
		ballMat = lambert{Diffuse: c.Ball.Rho, Ambient: c.Ball.Amb}
		bc, br := c.Ball.C, c.Ball.R
		if c.BallXf != nil {
			bc, br = c.BallXf.RefInverse(bc), br/c.BallXf.DistFactor()
		}
		var b render3d.Object = &render3d.ColliderObject{Collider: &model3d.Sphere{Center: m3.C3(bc), Radius: br}, Material: ballMat.mat()}
		if c.BallXf != nil {
			b = wrap(b, *c.BallXf)
			o.Label("ball-transformed")
		}
		parts = append(parts, b)
	}
	scene := container(c.Container, parts)
	var lights []*render3d.PointLight
	for _, l := range c.Lights {
		lights = append(lights, &render3d.PointLight{Origin: m3.C3(l.P), Color: l.Color.col(), QuadDropoff: l.Quad})
	}
	img := render3d.NewImage(c.W, c.H)
	if c.Renderer == "rrt" {
		(&render3d.RecursiveRayTracer{Camera: c.Cam.build(), Lights: lights, MaxDepth: 0, NumSamples: c.NumSamples}).Render(img, scene)
	} else {
		(&render3d.RayCaster{Camera: c.Cam.build(), Lights: lights}).Render(img, scene)
	}
	o.Label("renderer:" + c.Renderer)

	// reference
	const band = 1e-6
	// nearest hit among the parts, leaving out part `skip` (0 plane, 1 ball; -1 none), and the distance to the
	// nearest decision boundary
	cast := func(o0, d kit.V3, skip int) (h hit, mat lambert, which int, margin float64) {
		margin = math.Inf(1)
		which = -1
		if skip != 0 {
			hp := rayQuad(o0, d, c.Plane)
			margin = hp.margin
			if hp.ok {
				h, mat, which = hp, c.PlaneMat, 0
			}
		}
		if c.Ball != nil && skip != 1 {
			hb := raySphere(o0, d, c.Ball.C, c.Ball.R)
			margin = math.Min(margin, hb.margin)
			if hb.ok && h.ok {
				margin = math.Min(margin, math.Abs(hb.t-h.t)/(hb.t+h.t))
			}
			if hb.ok && (!h.ok || hb.t < h.t) {
				h, mat, which = hb, ballMat, 1
			}
		}
		return
	}
	maxX, maxY := float64(c.W-1), float64(c.H-1)
	lit, shadowed, hits := 0, 0, 0
	for idx, got := range img.Data {
		x, y := idx%c.W, idx/c.W
		d := c.Cam.dir(float64(x), float64(y), maxX, maxY)
		h, mat, which, margin := cast(c.Cam.Origin, d, -1)
		if margin < band {
			o.Label("skip-pixel:edge")
			continue
		}
		var want rgb
		if h.ok {
			hits++
			toCam := d.Unit().Scale(-1)
			for ch := 0; ch < 3; ch++ {
				want[ch] = mat.Ambient[ch] + mat.Emit[ch]
			}
			undecided := false
			for _, l := range c.Lights {
				toLight := l.P.Sub(h.p)
				dist := toLight.Norm()
				cosn := h.n.Dot(toLight) / dist
				// Lambert BSDF (material.go): zero unless viewer and light are on the normal's side, else 4*diffuse;
				// ShadeCollision (light.go): colour (/ d^2 with QuadDropoff) * 0.25 * max(0, cos)
				if math.Abs(cosn) < band || math.Abs(h.n.Dot(toCam)) < band {
					undecided = true
					break
				}
				if cosn < 0 || h.n.Dot(toCam) < 0 {
					continue
				}
				if c.Renderer == "rrt" {
					// shadow test (raytrace.go): anything strictly between the point and the light.  A flat or convex
					// part cannot shadow itself where cos > 0; the renderer starts the shadow ray 1e-8 off the surface,
					// which is not safely off it at grazing incidence
					if cosn < 1e-3 {
						undecided = true
						break
					}
					sh, _, _, m := cast(h.p, toLight, which)
					if m < band || (sh.ok && math.Abs(sh.t-1) < band) {
						undecided = true
						break
					}
					if sh.ok && sh.t < 1 {
						shadowed++
						continue
					}
				}
				lit++
				f := cosn
				if l.Quad {
					f /= dist * dist
				}
				for ch := 0; ch < 3; ch++ {
					want[ch] += l.Color[ch] * mat.Diffuse[ch] * f
				}
			}
			if undecided {
				o.Label("skip-pixel:terminator")
				continue
			}
		}
		if e := m3.V3(got).Sub(kit.V3(want)).MaxAbs(); !(e <= 1e-9*(1+kit.V3(want).MaxAbs())) {
			return fmt.Errorf("pixel (%d,%d) of %dx%d under %s = %v, closed form ambient + emission + sum diffuse*colour*max(0,cos)(/d^2) = %v (hit=%v at %v normal %v)",
				x, y, c.W, c.H, c.Renderer, colArr(got), want, h.ok, h.p, h.n)
		}
	}
	if lit > 0 {
		o.Label("lit-pixels")
	}
	if shadowed > 0 {
		o.Label("shadowed-pixels")
	}
	if hits > 0 && hits < len(img.Data) {
		o.Label("partly-covered")
	}
	if lit > 0 {
		o.NonTrivial()
	}
	return nil
}
