package c20

import (
	"fmt"
	"testing"

	"github.com/unixpickle/model3d/model3d"
	"github.com/unixpickle/model3d/render3d"
)

func TestDbg(t *testing.T) {
	m := &model3d.Matrix3{0.8551236368284344, 0, 0, 0, 0.29762019397509276, -0.4898277769994661, 0, 0.47529762070718784, -0.017018752948049193}
	c := model3d.XYZ(0.8062255746375993, -0.45155185832278866, -0.9516164783567844)
	fmt.Println(m.MulColumn(c))
	sp := &render3d.ColliderObject{Collider: &model3d.Sphere{Center: c, Radius: 0.2267}}
	fmt.Println(sp.Min(), sp.Max())
	o := render3d.MatrixMultiply(sp, m)
	fmt.Println(o.Min(), o.Max())
	tr := &model3d.Matrix3Transform{Matrix: m}
	fmt.Println(tr.ApplyBounds(sp.Min(), sp.Max()))
}
