package c20

// Clause (d): composite objects report the nearest hit among their parts, and transformed
// objects are hit where the transformed original is.

import (
	"fmt"
	"math"

	"github.com/unixpickle/model3d/model3d"
	"github.com/unixpickle/model3d/render3d"
	"pgregory.net/rapid"
	"verifharness/gen"
	"verifharness/kit"
	"verifharness/m3"
)

type rayDesc struct {
	O kit.V3 `json:"o"`
	D kit.V3 `json:"d"`
}

// tagMat is a material that only carries its identity.
type tagMat struct {
	render3d.LambertMaterial
	id int
}

// ---------------------------------------------------------------------------
// nearest part

type nearestCase struct {
	Parts []gen.Shape3 `json:"parts"`
	Tree  []int        `json:"tree"` // how the parts are grouped: see buildTree
	Kind  string       `json:"kind"` // joined | bvh | filtered | nested
	Rays  []rayDesc    `json:"rays"`
}

func genNearest(t *rapid.T) nearestCase {
	c := nearestCase{Kind: rapid.SampledFrom([]string{"joined", "bvh", "filtered", "nested"}).Draw(t, "kind")}
	n := gen.Int(t, 1, 7, "nparts")
	for i := 0; i < n; i++ {
		s := gen.Shape3Gen(t, gen.AllKinds3, gen.LogF(t, 0.3, 1.5, "size"), 6, "part")
		if rapid.IntRange(0, 4).Draw(t, "dup") == 0 && i > 0 {
			s = c.Parts[i-1] // coincident parts: a tie, any of them may be reported
		}
		c.Parts = append(c.Parts, s)
		c.Tree = append(c.Tree, rapid.IntRange(0, 2).Draw(t, "group"))
	}
	nr := 10
	for i := 0; i < nr; i++ {
		o := gen.Vec3(t, 3.5, "o")
		var d kit.V3
		if rapid.IntRange(0, 2).Draw(t, "aim") > 0 {
			p := c.Parts[gen.Int(t, 0, n-1, "aimat")]
			d = p.Centre().Add(gen.Vec3(t, 0.7*p.Size(), "jitter")).Sub(o)
		} else {
			d = gen.Dir3(t, "d")
		}
		if d.Norm() < 1e-3 {
			d = kit.V3{0.3, -0.4, 0.5}
		}
		c.Rays = append(c.Rays, rayDesc{O: o, D: d.Unit().Scale(gen.LogF(t, 0.1, 10, "dscale"))})
	}
	return c
}

func checkNearest(c nearestCase, o *kit.Obs) error {
	parts := make([]render3d.Object, len(c.Parts))
	for i, s := range c.Parts {
		parts[i] = &render3d.ColliderObject{Collider: s.Build(), Material: &tagMat{id: i}}
	}
	var obj render3d.Object
	switch c.Kind {
	case "joined":
		obj = render3d.JoinedObject(parts)
	case "bvh":
		obj = render3d.BVHToObject(model3d.NewBVHAreaDensity(parts))
	case "filtered":
		j := render3d.JoinedObject(parts)
		obj = &render3d.FilteredObject{Object: j, Bounds: model3d.BoundsRect(j)}
	default:
		// groups 0,1,2: joined / bvh / filtered sub-objects, joined together
		var groups [3][]render3d.Object
		for i, p := range parts {
			groups[c.Tree[i]] = append(groups[c.Tree[i]], p)
		}
		var top render3d.JoinedObject
		if len(groups[0]) > 0 {
			top = append(top, render3d.JoinedObject(groups[0]))
		}
		if len(groups[1]) > 0 {
			top = append(top, render3d.BVHToObject(model3d.NewBVHAreaDensity(groups[1])))
		}
		if len(groups[2]) > 0 {
			j := render3d.JoinedObject(groups[2])
			top = append(top, &render3d.FilteredObject{Object: j, Bounds: model3d.BoundsRect(j)})
		}
		obj = top
	}
	o.Label("kind:" + c.Kind)
	// bounds: the union of the parts' boxes
	lo, hi := m3.V3(parts[0].Min()), m3.V3(parts[0].Max())
	for _, p := range parts[1:] {
		a, b := m3.V3(p.Min()), m3.V3(p.Max())
		for k := 0; k < 3; k++ {
			lo[k], hi[k] = math.Min(lo[k], a[k]), math.Max(hi[k], b[k])
		}
	}
	if m3.V3(obj.Min()) != lo || m3.V3(obj.Max()) != hi {
		return fmt.Errorf("%s bounds [%v, %v], union of the parts' boxes [%v, %v]", c.Kind, obj.Min(), obj.Max(), lo, hi)
	}
	nhit, multi := 0, 0
	for _, r := range c.Rays {
		ray := &model3d.Ray{Origin: m3.C3(r.O), Direction: m3.C3(r.D)}
		// brute force over the parts with the very same ray: wrappers pass it on unchanged
		best := math.Inf(1)
		cnt := 0
		var colls []model3d.RayCollision
		var oks []bool
		for _, p := range parts {
			rc, _, ok := p.Cast(ray)
			colls, oks = append(colls, rc), append(oks, ok)
			if ok {
				cnt++
				best = math.Min(best, rc.Scale)
			}
		}
		rc, mat, ok := obj.Cast(ray)
		if ok != (cnt > 0) {
			return fmt.Errorf("%s of %d parts: ray %v -> %v hit=%v, but %d parts are hit (nearest at %g)", c.Kind, len(parts), r.O, r.D, ok, cnt, best)
		}
		if !ok {
			continue
		}
		nhit++
		if cnt > 1 {
			multi++
		}
		if rc.Scale != best {
			return fmt.Errorf("%s of %d parts: ray %v -> %v reports the hit at %.17g, the nearest part hit is at %.17g (%d parts hit)", c.Kind, len(parts), r.O, r.D, rc.Scale, best, cnt)
		}
		tm, isTag := mat.(*tagMat)
		if !isTag {
			return fmt.Errorf("%s: material %T is not a part's material", c.Kind, mat)
		}
		if !oks[tm.id] || colls[tm.id].Scale != best {
			return fmt.Errorf("%s: the reported material belongs to part %d, which is not a nearest part", c.Kind, tm.id)
		}
		if rc.Normal != colls[tm.id].Normal {
			return fmt.Errorf("%s: normal %v differs from the nearest part's %v", c.Kind, rc.Normal, colls[tm.id].Normal)
		}
	}
	if multi > 0 {
		o.NonTrivial()
		o.Label("ray-through-several-parts")
	}
	if nhit == 0 {
		o.Label("no-hits")
	}
	return nil
}

// ---------------------------------------------------------------------------
// transformed objects

type xfObjCase struct {
	Base  gen.Shape3   `json:"base"`  // sphere | rect
	Steps []gen.Xform3 `json:"steps"` // applied first to last
	Rays  []rayDesc    `json:"rays"`
}

func genXfStep(t *rapid.T, label string) gen.Xform3 {
	switch rapid.IntRange(0, 6).Draw(t, label+".kind") {
	case 0, 1:
		return gen.Xform3{Kind: "translate", V: gen.Vec3(t, 3, label+".off")}
	case 2, 3:
		return gen.Xform3{Kind: "rotation", V: gen.Dir3(t, label+".axis").Unit(), S: gen.F(t, -6.5, 6.5, label+".angle")}
	case 4:
		s := gen.LogF(t, 0.2, 5, label+".s")
		if rapid.IntRange(0, 3).Draw(t, label+".neg") == 0 {
			s = -s // a point reflection is a legitimate argument of Scale / MatrixMultiply
		}
		return gen.Xform3{Kind: "scale", S: s}
	default:
		// MatrixMultiply with a general well-conditioned matrix ("rotations, scaling, etc.")
		for {
			x := gen.Xform3Gen(t, false, label+".m")
			if x.Kind == "matrix" || x.Kind == "vecscale" {
				return x
			}
		}
	}
}

func genXfObj(t *rapid.T) xfObjCase {
	c := xfObjCase{Base: gen.Shape3Gen(t, []string{"sphere", "rect"}, gen.LogF(t, 0.3, 2, "size"), 5, "base")}
	n := rapid.IntRange(1, 3).Draw(t, "nsteps")
	for i := 0; i < n; i++ {
		c.Steps = append(c.Steps, genXfStep(t, "step"))
	}
	full := gen.Xform3{Kind: "joined", Parts: c.Steps}
	ctr := full.RefApply(c.Base.Centre())
	size := c.Base.Size() * math.Cbrt(math.Abs(full.Det()))
	for i := 0; i < 8; i++ {
		o := ctr.Add(gen.Dir3(t, "odir").Unit().Scale(size * gen.LogF(t, 0.05, 6, "odist")))
		var d kit.V3
		if rapid.IntRange(0, 3).Draw(t, "aim") > 0 {
			d = ctr.Add(gen.Vec3(t, 0.8*size, "jitter")).Sub(o)
		} else {
			d = gen.Dir3(t, "d")
		}
		if d.Norm() < 1e-6*size {
			d = kit.V3{0.3, -0.4, 0.5}
		}
		c.Rays = append(c.Rays, rayDesc{O: o, D: d.Unit().Scale(gen.LogF(t, 0.1, 10, "dscale"))})
	}
	return c
}

func checkXfObj(c xfObjCase, o *kit.Obs) error {
	mat := &tagMat{id: 7}
	var obj render3d.Object = &render3d.ColliderObject{Collider: c.Base.Build(), Material: mat}
	// every intermediate object stays alive: wrapping an object again must not change the object that was wrapped
	objs := make([]render3d.Object, len(c.Steps))
	for i, s := range c.Steps {
		obj = wrap(obj, s)
		objs[i] = obj
	}
	if err := checkXfChain(c, objs[len(objs)-1], c.Steps, c.Rays, mat, o, true); err != nil {
		return err
	}
	full := gen.Xform3{Kind: "joined", Parts: c.Steps}
	for i := 0; i+1 < len(objs); i++ {
		// the rays of the case, carried from the final image back to this intermediate one
		pre := gen.Xform3{Kind: "joined", Parts: c.Steps[:i+1]}
		rays := make([]rayDesc, len(c.Rays))
		for k, r := range c.Rays {
			o0 := pre.RefApply(full.RefInverse(r.O))
			o1 := pre.RefApply(full.RefInverse(r.O.Add(r.D)))
			rays[k] = rayDesc{O: o0, D: o1.Sub(o0)}
		}
		if err := checkXfChain(c, objs[i], c.Steps[:i+1], rays, mat, &kit.Obs{}, false); err != nil {
			return fmt.Errorf("intermediate object after %d of %d transforms, queried after it had been wrapped again: %w", i+1, len(objs), err)
		}
		o.Label("intermediate-object-rechecked")
	}
	return nil
}

func checkXfChain(c xfObjCase, obj render3d.Object, steps []gen.Xform3, caseRays []rayDesc, mat *tagMat, o *kit.Obs, main bool) error {
	full := gen.Xform3{Kind: "joined", Parts: steps}
	sim := similarity(full)
	for k := range full.Kinds() {
		o.Label("step:" + k)
	}
	if full.Det() < 0 {
		o.Label("orientation-reversing")
	}
	skipNormal := false
	if !sim {
		o.Label("non-similarity")
		if kit.Excluded("matrix-object-normal") {
			kit.CountExcluded("matrix-object-normal")
			skipNormal = true
		}
	}
	// scale of the image for tolerances
	stretch := 0.0
	for _, e := range []kit.V3{{1, 0, 0}, {0, 1, 0}, {0, 0, 1}} {
		stretch = math.Max(stretch, full.RefApplyDir(e).Norm())
	}
	ctr := full.RefApply(c.Base.Centre())
	size := c.Base.Size() * stretch
	tolLen := 1e-9 * (size + ctr.MaxAbs())

	// bounds contain the image of the surface
	lo, hi := m3.V3(obj.Min()), m3.V3(obj.Max())
	for k := 0; k < 3; k++ {
		if !(lo[k] <= hi[k]) {
			return fmt.Errorf("bounds of the transformed object are not a box: min %v max %v", lo, hi)
		}
	}
	var surf []kit.V3
	for i := 0; i < 40; i++ {
		u := kit.V3{2*u01(uint64(i), 1) - 1, 2*u01(uint64(i), 2) - 1, 2*u01(uint64(i), 3) - 1}
		if c.Base.Kind == "sphere" {
			surf = append(surf, c.Base.A.Add(u.Unit().Scale(c.Base.R)))
		} else {
			// a point of the box surface: clamp one coordinate to a face
			p := c.Base.A.Mid(c.Base.B).Add(kit.V3{u[0] * (c.Base.B[0] - c.Base.A[0]) / 2, u[1] * (c.Base.B[1] - c.Base.A[1]) / 2, u[2] * (c.Base.B[2] - c.Base.A[2]) / 2})
			if i < 8 {
				for k := 0; k < 3; k++ {
					p[k] = c.Base.A[k]
					if i>>k&1 == 1 {
						p[k] = c.Base.B[k]
					}
				}
			} else {
				p[i%3] = c.Base.A[i%3]
			}
			surf = append(surf, p)
		}
	}
	for _, p := range surf {
		q := full.RefApply(p)
		for k := 0; k < 3; k++ {
			if q[k] < lo[k]-tolLen || q[k] > hi[k]+tolLen {
				return fmt.Errorf("the image %v of surface point %v lies outside the transformed object's bounds [%v, %v]", q, p, lo, hi)
			}
		}
	}

	nhit := 0
	for _, r := range caseRays {
		// reference: pull the ray back with the reference arithmetic and intersect the analytic base shape
		o0 := full.RefInverse(r.O)
		d0 := full.RefInverse(r.O.Add(r.D)).Sub(o0)
		var h hit
		if c.Base.Kind == "sphere" {
			h = raySphere(o0, d0, c.Base.A, c.Base.R)
		} else {
			h = rayBox(o0, d0, c.Base.A, c.Base.B)
		}
		if h.margin < 1e-6 {
			o.Label("skip-ray:boundary")
			continue
		}
		rc, m, ok := obj.Cast(&model3d.Ray{Origin: m3.C3(r.O), Direction: m3.C3(r.D)})
		if ok != h.ok {
			return fmt.Errorf("ray %v -> %v: transformed object hit=%v, the transformed original hit=%v (pulled-back ray %v -> %v, margin %g)", r.O, r.D, ok, h.ok, o0, d0, h.margin)
		}
		if !ok {
			continue
		}
		nhit++
		if m != render3d.Material(mat) {
			return fmt.Errorf("material was not passed through")
		}
		// same ray parameter (an affine map preserves it)
		if math.Abs(rc.Scale-h.t) > 1e-9*(math.Abs(h.t)+size/r.D.Norm()) {
			return fmt.Errorf("ray %v -> %v: ray parameter %.15g, the original is hit at parameter %.15g", r.O, r.D, rc.Scale, h.t)
		}
		// at the image of the original hit point
		got := r.O.Add(r.D.Scale(rc.Scale))
		want := full.RefApply(h.p)
		if got.Dist(want) > tolLen+1e-9*r.O.MaxAbs() {
			return fmt.Errorf("ray %v -> %v: hit point %v, image of the original hit point %v", r.O, r.D, got, want)
		}
		// with the transformed unit normal: for rotations the rotated normal, in general the inverse transpose
		if skipNormal {
			continue
		}
		n := m3.V3(rc.Normal)
		wn := full.RefNormal(h.n)
		if math.Abs(n.Norm()-1) > 1e-9 {
			return fmt.Errorf("reported normal %v is not a unit vector", n)
		}
		if e := n.Sub(wn).Norm(); e > 1e-8 {
			return fmt.Errorf("ray %v -> %v: normal %v, the normal of the transformed surface at the hit is %v (original normal %v, difference %.3g, similarity=%v)", r.O, r.D, n, wn, h.n, e, sim)
		}
	}
	if nhit > 0 {
		o.NonTrivial()
	} else {
		o.Label("no-hits")
	}
	return nil
}
