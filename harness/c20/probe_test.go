package c20

import (
	"fmt"
	"math"
	"math/rand"
	"testing"

	"github.com/unixpickle/model3d/model3d"
	"github.com/unixpickle/model3d/render3d"
)

func TestProbe(t *testing.T) {
	// 1. one-pixel-wide image
	cam := render3d.NewCameraAt(model3d.XYZ(0, 0, 0), model3d.XYZ(0, 1, 0), 1)
	obj := &render3d.ColliderObject{Collider: &model3d.Sphere{Radius: 5}, Material: &render3d.LambertMaterial{EmissionColor: render3d.NewColor(0.7)}}
	for _, sz := range [][2]int{{1, 1}, {1, 3}, {3, 1}, {2, 2}} {
		img := render3d.NewImage(sz[0], sz[1])
		(&render3d.RayCaster{Camera: cam}).Render(img, obj)
		fmt.Println("size", sz, img.Data)
	}
	fmt.Println(cam.Caster(0, 0)(0, 0))

	// 2. DirectionalCamera elongated
	for _, half := range []model3d.Coord3D{model3d.XYZ(10, 0.1, 0.1), model3d.XYZ(1, 1, 1), model3d.XYZ(3, 0.5, 0.2)} {
		box := &render3d.ColliderObject{Collider: &model3d.Rect{MinVal: half.Scale(-1), MaxVal: half}}
		for _, fov := range []float64{0.3, 1, math.Pi / 2, 2.5} {
			c := render3d.DirectionalCamera(box, model3d.X(1), fov)
			fmt.Println("half", half, "fov", fov, "cam dist", c.Origin.Norm())
		}
	}

	// 3. matrix object normal
	sph := &render3d.ColliderObject{Collider: &model3d.Sphere{Radius: 1}}
	mo := render3d.MatrixMultiply(sph, &model3d.Matrix3{1, 0, 0, 0, 1, 0, 0, 0, 0.1})
	rc, _, ok := mo.Cast(&model3d.Ray{Origin: model3d.XYZ(0.5, 0, 5), Direction: model3d.XYZ(0, 0, -1)})
	fmt.Println("flattened sphere hit", rc.Scale, rc.Normal, ok, "expected normal prop to (x, y, z/0.01)")

	// 4. bidir furnace
	mesh := model3d.NewMeshRect(model3d.XYZ(-3, -3, -3), model3d.XYZ(3, 3, 3))
	inv := model3d.NewMesh()
	mesh.Iterate(func(tr *model3d.Triangle) { inv.Add(&model3d.Triangle{tr[0], tr[2], tr[1]}) })
	E := render3d.NewColor(2)
	light := render3d.NewMeshAreaLight(inv, E)
	inner := &render3d.ColliderObject{Collider: &model3d.Sphere{Radius: 1}, Material: &render3d.LambertMaterial{DiffuseColor: model3d.XYZ(0.5, 0.3, 0.8)}}
	scene := render3d.JoinedObject{light, inner}
	cam2 := render3d.NewCameraAt(model3d.XYZ(0, -2.5, 0.3), model3d.XYZ(0, 0, 0), 1.2)
	rand.Seed(5)
	for _, md := range []int{1, 2, 3, 5} {
		bpt := &render3d.BidirPathTracer{Camera: cam2, Light: light, MaxDepth: md, NumSamples: 4000}
		img := render3d.NewImage(4, 4)
		bpt.Render(img, scene)
		fmt.Println("bidir depth", md, img.Data[5], img.Data[0])
		rt := &render3d.RecursiveRayTracer{Camera: cam2, MaxDepth: md, NumSamples: 10}
		rt.Render(img, scene)
		fmt.Println("rrt depth", md, img.Data[5], img.Data[0])
	}
}
