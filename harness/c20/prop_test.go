package c20

import (
	"runtime"
	"testing"

	"verifharness/kit"
)

const rule = "sampler: random sampler settings (NumSamples 1-64, MinSamples, MaxStddev, OversaturatedStddevs, custom Convergence, Cutoff, MaxDepth, Antialias), image sizes 1x1..17x9 chosen below / equal to / above the worker count (runtime.NumCPU, fixed per process) and GOMAXPROCS in {1,2,5,16}, against a recording scene; the same in child processes restricted with taskset to 1, 2, 4, 5 or 6 CPUs (= worker count) with pixel counts below / equal to / a multiple of / above that count; closed forms: emitter enclosures (sphere, box, inward mesh, furnace walls, matte ball inside), matte parallelogram + ball under 1-2 point lights, all optionally wrapped in similarity transforms, BVH or joined; cameras: random frames, |fov| 0.02-3.1, negative fov, near-vertical look-at, auto-framing of boxes with aspect up to 100; objects: 1-7 primitives joined / BVH / filtered / nested, spheres and boxes under 1-3 Translate/Rotate/Scale/MatrixMultiply steps. Non-trivial: a convergence rule that actually stopped a pixel early (measured from the recorded counts) or a pixel count different from the worker count; a lit pixel / a visible ball / a furnace / a transformed scene; a non-square image; a field of view away from the helper default; a ray through several parts; a hit on a transformed object. Distinct: hash of the JSON case."

func TestProp(t *testing.T) {
	runtime.GOMAXPROCS(2)
	kit.Run(t, "C20", rule,
		kit.Clause[samplerCase]{Name: "C20/sampler/mean-of-recorded", Quick: 6000, Thorough: 60000, Gen: genSampler, Check: checkSampler, Fresh: true},
		kit.Clause[workersCase]{Name: workersClause, Quick: 480, Thorough: 8000, Gen: genWorkers, Check: checkWorkers},
		kit.Clause[emitCase]{Name: "C20/closed/emitter", Quick: 2000, Thorough: 16000, Gen: genEmit, Check: checkEmit, Fresh: true},
		kit.Clause[bidirCase]{Name: "C20/closed/bidir-furnace", Quick: 96, Thorough: 1200, Gen: genBidir, Check: checkBidir, Fresh: true},
		kit.Clause[matteCase]{Name: "C20/closed/matte", Quick: 3000, Thorough: 30000, Gen: genMatte, Check: checkMatte, Fresh: true},
		kit.Clause[roundtripCase]{Name: "C20/camera/roundtrip", Quick: 8000, Thorough: 80000, Gen: genRoundtrip, Check: checkRoundtrip},
		kit.Clause[lookAtCase]{Name: "C20/camera/look-at", Quick: 6000, Thorough: 80000, Gen: genLookAt, Check: checkLookAt},
		kit.Clause[dirCamCase]{Name: "C20/camera/directional", Quick: 8000, Thorough: 80000, Gen: genDirCam, Check: checkDirCam},
		kit.Clause[nearestCase]{Name: "C20/object/nearest-part", Quick: 4000, Thorough: 40000, Gen: genNearest, Check: checkNearest},
		kit.Clause[xfObjCase]{Name: "C20/object/transformed", Quick: 6000, Thorough: 60000, Gen: genXfObj, Check: checkXfObj},
	)
}
