package c20

// Independent reference models used by the C20 clauses: a pinhole camera written from the
// documentation of render3d.Camera, analytic ray/sphere, ray/box and ray/parallelogram
// intersections with explicit "distance to the decision boundary" outputs, a bit mixer for
// deterministic per-sample radiances, and the builders from JSON descriptions to library
// objects.  Nothing in this file calls the code under test except the build* functions.

import (
	"math"

	"github.com/unixpickle/model3d/model3d"
	"github.com/unixpickle/model3d/render3d"
	"pgregory.net/rapid"
	"verifharness/gen"
	"verifharness/kit"
	"verifharness/m3"
)

// ---------------------------------------------------------------------------
// pinhole camera

// camDesc is a camera given by its documented fields: origin, the unit image axes and the
// field of view (negative = looking along -(X x Y)).
type camDesc struct {
	Origin kit.V3  `json:"origin"`
	X      kit.V3  `json:"x"`
	Y      kit.V3  `json:"y"`
	Fov    float64 `json:"fov"`
}

func (c camDesc) build() *render3d.Camera {
	return &render3d.Camera{Origin: m3.C3(c.Origin), ScreenX: m3.C3(c.X), ScreenY: m3.C3(c.Y), FieldOfView: c.Fov}
}

func camOf(c *render3d.Camera) camDesc {
	return camDesc{Origin: m3.V3(c.Origin), X: m3.V3(c.ScreenX), Y: m3.V3(c.ScreenY), Fov: c.FieldOfView}
}

// aspect returns the scale of the x and y image axes: the longer image side spans the whole
// field of view and pixels are square (Camera doc: "FieldOfView is the angle spanning the
// viewing plane"; the library applies it to the longer side).
func aspect(maxX, maxY float64) (sx, sy float64) {
	sx, sy = 1, 1
	if maxX > maxY {
		sy = maxY / maxX
	} else if maxY > maxX {
		sx = maxX / maxY
	}
	return
}

// dir is the ray direction through image position (px, py) of an image whose coordinates run
// over [0, maxX] x [0, maxY].  A degenerate axis (max = 0: an image one pixel wide) has its
// only pixel centre in the middle of the field of view.
func (c camDesc) dir(px, py, maxX, maxY float64) kit.V3 {
	sx, sy := aspect(maxX, maxY)
	u, v := 0.0, 0.0
	if maxX > 0 {
		u = (px - maxX/2) / (maxX / 2) * sx
	}
	if maxY > 0 {
		v = (py - maxY/2) / (maxY / 2) * sy
	}
	z := c.X.Cross(c.Y).Unit()
	return c.X.Scale(u).Add(c.Y.Scale(v)).Add(z.Scale(1 / math.Tan(c.Fov/2)))
}

// project maps a point to image coordinates; lambda > 0 iff the point is in front of the camera.
// Degenerate axes report the centre coordinate 0.
func (c camDesc) project(p kit.V3, maxX, maxY float64) (px, py, lambda float64) {
	rel := p.Sub(c.Origin)
	return c.projectDir(rel, maxX, maxY)
}

func (c camDesc) projectDir(rel kit.V3, maxX, maxY float64) (px, py, lambda float64) {
	sx, sy := aspect(maxX, maxY)
	z := c.X.Cross(c.Y).Unit()
	lambda = rel.Dot(z) * math.Tan(c.Fov/2)
	u, v := rel.Dot(c.X)/lambda, rel.Dot(c.Y)/lambda
	if maxX > 0 {
		px = maxX/2 + u/sx*maxX/2
	}
	if maxY > 0 {
		py = maxY/2 + v/sy*maxY/2
	}
	return
}

// frame returns orthonormal x, y with x cross y = look (unit), rolled by the angle.
func frame(look kit.V3, roll float64) (x, y kit.V3) {
	look = look.Unit()
	a := kit.V3{1, 0, 0}
	if math.Abs(look[0]) > 0.7 {
		a = kit.V3{0, 1, 0}
	}
	a = a.Sub(look.Scale(a.Dot(look))).Unit()
	b := look.Cross(a) // a x b = look
	c, s := math.Cos(roll), math.Sin(roll)
	x = a.Scale(c).Add(b.Scale(s))
	y = look.Cross(x)
	// re-orthonormalise against rounding
	x = x.Unit()
	y = y.Sub(x.Scale(y.Dot(x))).Unit()
	return
}

// genCamLooking draws a camera at origin looking at target (positive or, one time in six,
// negative field of view with the axes swapped accordingly).
func genCamLooking(t *rapid.T, origin, target kit.V3, fovLo, fovHi float64, label string) camDesc {
	look := target.Sub(origin)
	fov := gen.LogF(t, fovLo, fovHi, label+".fov")
	x, y := frame(look, gen.F(t, -math.Pi, math.Pi, label+".roll"))
	if rapid.IntRange(0, 5).Draw(t, label+".negfov") == 0 {
		// documented: a negative FieldOfView reverses the viewing direction, so X x Y must point backwards
		x, y = y, x
		fov = -fov
	}
	return camDesc{Origin: origin, X: x, Y: y, Fov: fov}
}

// ---------------------------------------------------------------------------
// analytic intersections.  Each returns the ray parameter for the given (not normalised)
// direction, the unit normal as the corresponding library collider reports it (outward), and
// margin: a relative measure of how far the ray is from a hit/miss or which-face decision
// (cases with a small margin are skipped by the callers).

type hit struct {
	ok     bool
	t      float64
	p      kit.V3
	n      kit.V3
	margin float64
}

// raySphere: first intersection with t >= 0 (the far one if the origin is inside).
func raySphere(o, d, c kit.V3, r float64) hit {
	dn := d.Norm()
	u := d.Scale(1 / dn)
	oc := o.Sub(c)
	b := oc.Dot(u)
	perp := oc.Sub(u.Scale(b)).Norm()
	h := hit{margin: math.Abs(perp-r) / r}
	if m := math.Abs(oc.Norm()-r) / r; m < h.margin {
		h.margin = m // origin on the surface
	}
	if perp >= r {
		return h
	}
	s := math.Sqrt(r*r - perp*perp)
	t1, t2 := -b-s, -b+s
	t := t1
	if t1 < 0 {
		t = t2
	}
	if t < 0 {
		return h
	}
	h.ok = true
	h.t = t / dn
	h.p = o.Add(u.Scale(t))
	h.n = h.p.Sub(c).Unit()
	return h
}

// rayBox: slab method; first boundary crossing with t >= 0 (the exit if the origin is inside).
func rayBox(o, d, lo, hi kit.V3) hit {
	size := hi.Sub(lo).Norm()
	tmin, tmax := math.Inf(-1), math.Inf(1)
	h := hit{margin: math.Inf(1)}
	for i := 0; i < 3; i++ {
		if d[i] == 0 {
			if o[i] <= lo[i] || o[i] >= hi[i] {
				h.margin = math.Min(h.margin, math.Min(math.Abs(o[i]-lo[i]), math.Abs(o[i]-hi[i]))/size)
				if o[i] < lo[i] || o[i] > hi[i] {
					tmin, tmax = math.Inf(1), math.Inf(-1)
				}
			} else {
				h.margin = math.Min(h.margin, math.Min(o[i]-lo[i], hi[i]-o[i])/size)
			}
			continue
		}
		a, b := (lo[i]-o[i])/d[i], (hi[i]-o[i])/d[i]
		if a > b {
			a, b = b, a
		}
		tmin, tmax = math.Max(tmin, a), math.Min(tmax, b)
	}
	dn := d.Norm()
	h.margin = math.Min(h.margin, math.Abs(tmax-tmin)*dn/size)
	if tmax < tmin || tmax < 0 {
		h.margin = math.Min(h.margin, math.Abs(tmax)*dn/size)
		return h
	}
	t := tmin
	if t < 0 {
		t = tmax
	}
	h.margin = math.Min(h.margin, math.Min(math.Abs(tmin), math.Abs(tmax))*dn/size)
	h.ok = true
	h.t = t
	h.p = o.Add(d.Scale(t))
	// face: the coordinate closest to a face; the second closest gives the edge margin
	best, second := math.Inf(1), math.Inf(1)
	for i := 0; i < 3; i++ {
		for _, side := range []float64{-1, 1} {
			f := lo[i]
			if side > 0 {
				f = hi[i]
			}
			dist := math.Abs(h.p[i] - f)
			if dist < best {
				second = best
				best = dist
				h.n = kit.V3{}
				h.n[i] = side
			} else if dist < second {
				second = dist
			}
		}
	}
	h.margin = math.Min(h.margin, (second-best)/size)
	return h
}

// quad is the parallelogram P + s U + t V, s, t in [0,1], triangulated as (P, P+U, P+U+V),
// (P, P+U+V, P+V); both triangles have the right-handed normal U x V.
type quad struct {
	P kit.V3 `json:"p"`
	U kit.V3 `json:"u"`
	V kit.V3 `json:"v"`
}

func (q quad) tris() []kit.Tri {
	a, b, c, d := q.P, q.P.Add(q.U), q.P.Add(q.U).Add(q.V), q.P.Add(q.V)
	return []kit.Tri{{a, b, c}, {a, c, d}}
}

func (q quad) normal() kit.V3 { return q.U.Cross(q.V).Unit() }

// rayQuad: margin covers grazing incidence (|cos| small), the outline, the diagonal shared by
// the two triangles (a ray through it may be attributed to either or, by rounding, neither) and
// hits at the ray origin.
func rayQuad(o, d kit.V3, q quad) hit {
	n := q.normal()
	dn := d.Norm()
	cosi := d.Dot(n) / dn
	h := hit{margin: math.Abs(cosi)}
	if cosi == 0 {
		return h
	}
	t := q.P.Sub(o).Dot(n) / d.Dot(n)
	size := q.U.Norm() + q.V.Norm()
	h.margin = math.Min(h.margin, math.Abs(t)*dn/size)
	p := o.Add(d.Scale(t))
	rel := p.Sub(q.P)
	// solve rel = s U + t V in the plane
	uu, uv, vv := q.U.Dot(q.U), q.U.Dot(q.V), q.V.Dot(q.V)
	ru, rv := rel.Dot(q.U), rel.Dot(q.V)
	det := uu*vv - uv*uv
	s := (ru*vv - rv*uv) / det
	w := (rv*uu - ru*uv) / det
	for _, e := range []float64{s, 1 - s, w, 1 - w} {
		h.margin = math.Min(h.margin, math.Abs(e))
	}
	inside := s > 0 && s < 1 && w > 0 && w < 1
	if inside {
		h.margin = math.Min(h.margin, math.Abs(s-w))
	}
	if !inside || t < 0 {
		return h
	}
	h.ok, h.t, h.p, h.n = true, t, p, n
	return h
}

// ---------------------------------------------------------------------------
// deterministic radiances

func mix64(v uint64) uint64 {
	v += 0x9e3779b97f4a7c15
	v = (v ^ (v >> 30)) * 0xbf58476d1ce4e5b9
	v = (v ^ (v >> 27)) * 0x94d049bb133111eb
	return v ^ (v >> 31)
}

// u01 hashes its arguments to [0, 1).
func u01(parts ...uint64) float64 {
	var h uint64 = 0x243f6a8885a308d3
	for _, p := range parts {
		h = mix64(h ^ mix64(p))
	}
	return float64(h>>11) / (1 << 53)
}

// ---------------------------------------------------------------------------
// colours, transforms

type rgb [3]float64

func (c rgb) col() render3d.Color { return model3d.XYZ(c[0], c[1], c[2]) }
func colArr(c render3d.Color) rgb { return rgb{c.X, c.Y, c.Z} }

func genRGB(t *rapid.T, lo, hi float64, label string) rgb {
	return rgb{gen.F(t, lo, hi, label+".r"), gen.F(t, lo, hi, label+".g"), gen.F(t, lo, hi, label+".b")}
}

// wrap applies the transform description to a render3d object with the render3d wrappers
// (joined: left to right, i.e. the first part is applied first).
func wrap(obj render3d.Object, x gen.Xform3) render3d.Object {
	switch x.Kind {
	case "translate":
		return render3d.Translate(obj, m3.C3(x.V))
	case "scale":
		return render3d.Scale(obj, x.S)
	case "rotation":
		return render3d.Rotate(obj, m3.C3(x.V), x.S)
	case "vecscale":
		return render3d.MatrixMultiply(obj, &model3d.Matrix3{x.V[0], 0, 0, 0, x.V[1], 0, 0, 0, x.V[2]})
	case "matrix":
		// row-major description; the library stores Matrix3 row by row as well (matrix.go: "stored in
		// row-major order", MulColumn: X = m[0]*x + m[1]*y + m[2]*z), same as gen.Xform3.Build
		m := model3d.Matrix3(x.M)
		return render3d.MatrixMultiply(obj, &m)
	case "joined":
		for _, p := range x.Parts {
			obj = wrap(obj, p)
		}
		return obj
	}
	panic("c20: unknown transform kind " + x.Kind)
}

// similarity reports whether the transform is a rotation/reflection times a uniform scale plus
// a translation (the class for which M n / |M n| is the true normal).
func similarity(x gen.Xform3) bool {
	e0, e1, e2 := x.RefApplyDir(kit.V3{1, 0, 0}), x.RefApplyDir(kit.V3{0, 1, 0}), x.RefApplyDir(kit.V3{0, 0, 1})
	s := e0.Norm()
	tol := 1e-9 * s * s
	return math.Abs(e1.Norm()-s) < 1e-9*s && math.Abs(e2.Norm()-s) < 1e-9*s &&
		math.Abs(e0.Dot(e1)) < tol && math.Abs(e0.Dot(e2)) < tol && math.Abs(e1.Dot(e2)) < tol
}

// genSimilarity draws a translate / positive scale / rotation chain of 1..3 steps with unit axes.
func genSimilarity(t *rapid.T, label string) gen.Xform3 {
	n := rapid.IntRange(1, 3).Draw(t, label+".n")
	x := gen.Xform3{Kind: "joined"}
	for i := 0; i < n; i++ {
		switch rapid.IntRange(0, 2).Draw(t, label+".kind") {
		case 0:
			x.Parts = append(x.Parts, gen.Xform3{Kind: "translate", V: gen.Vec3(t, 2, label+".off")})
		case 1:
			x.Parts = append(x.Parts, gen.Xform3{Kind: "scale", S: gen.LogF(t, 0.3, 3, label+".s")})
		default:
			x.Parts = append(x.Parts, gen.Xform3{Kind: "rotation", V: gen.Dir3(t, label+".axis").Unit(), S: gen.F(t, -6.5, 6.5, label+".angle")})
		}
	}
	return x
}

func relErr(a, b kit.V3) float64 {
	return a.Sub(b).MaxAbs() / (1e-300 + math.Max(a.MaxAbs(), b.MaxAbs()))
}
