package c20

// Clause (a): every rendered pixel is the arithmetic mean of exactly the radiance samples taken
// for it.  The scene is a harness Object that is hit by every primary ray, identifies the pixel
// from the ray direction with the reference pinhole model, and answers with a Material whose
// emission (+ ambient) is a deterministic function of (seed, pixel, number of samples already
// taken for the pixel).  Everything the object handed out is recorded.

import (
	"fmt"
	"math"
	"math/rand"
	"runtime"
	"sort"
	"sync"

	"github.com/unixpickle/model3d/model3d"
	"github.com/unixpickle/model3d/render3d"
	"pgregory.net/rapid"
	"verifharness/gen"
	"verifharness/kit"
	"verifharness/m3"
)

type samplerCase struct {
	W          int     `json:"w"`
	H          int     `json:"h"`
	Cam        camDesc `json:"cam"`
	Renderer   string  `json:"renderer"` // rrt | bidir
	Mode       string  `json:"mode"`     // render | variance | rayvariance
	NumSamples int     `json:"num_samples"`
	MinSamples int     `json:"min_samples"`
	MaxStddev  float64 `json:"max_stddev"`
	Oversat    float64 `json:"oversaturated_stddevs"`
	Conv       string  `json:"convergence"` // "" | always | never | stddev | mean
	ConvThr    float64 `json:"convergence_threshold"`
	Cutoff     float64 `json:"cutoff"`
	MaxDepth   int     `json:"max_depth"`
	Antialias  float64 `json:"antialias"`
	Procs      int     `json:"gomaxprocs"`
	Seed       uint64  `json:"seed"`
	Log        bool    `json:"log_func"`
}

// sampleMat is the material handed out for one sample: black (BSDF 0) with the given emission
// and ambient colours.
type sampleMat struct{ em, amb render3d.Color }

func (s *sampleMat) BSDF(normal, source, dest model3d.Coord3D) render3d.Color { return render3d.Color{} }
func (s *sampleMat) SampleSource(g *rand.Rand, normal, dest model3d.Coord3D) model3d.Coord3D {
	return normal.Scale(-1)
}
func (s *sampleMat) SourceDensity(normal, source, dest model3d.Coord3D) float64 { return 1 }
func (s *sampleMat) Emission() render3d.Color                                   { return s.em }
func (s *sampleMat) Ambient() render3d.Color                                    { return s.amb }

type recorder struct {
	mu         sync.Mutex
	c          *samplerCase
	maxX, maxY float64
	useAmbient bool
	recs       [][]rgb  // per pixel: radiance handed out, in order
	stray      []kit.V3 // primary directions that belong to no pixel
	maxJitter  float64
	secondary  int
}

func (r *recorder) Min() model3d.Coord3D { return model3d.XYZ(-1e3, -1e3, -1e3) }
func (r *recorder) Max() model3d.Coord3D { return model3d.XYZ(1e3, 1e3, 1e3) }

// radiance of sample k of pixel idx: a per-pixel level (dim or oversaturated) with a per-pixel
// noise amplitude (none, small or large), so that convergence rules stop some pixels early and
// others not.
func (c *samplerCase) radiance(idx, k int) rgb {
	var out rgb
	for ch := 0; ch < 3; ch++ {
		lvl := u01(c.Seed, uint64(idx), 1, uint64(ch))
		base := 0.05 + 0.9*lvl
		if u01(c.Seed, uint64(idx), 2) < 0.3 {
			base = 1.3 + 3*lvl
		}
		amp := 0.0
		switch a := u01(c.Seed, uint64(idx), 3); {
		case a < 0.3:
		case a < 0.6:
			amp = 0.02
		default:
			amp = 0.9
		}
		out[ch] = base * (1 + amp*(2*u01(c.Seed, uint64(idx), 4, uint64(k), uint64(ch))-1))
	}
	return out
}

func (r *recorder) Cast(ray *model3d.Ray) (model3d.RayCollision, render3d.Material, bool) {
	if m3.V3(ray.Origin) != r.c.Cam.Origin {
		// a secondary (bounce / shadow / light) ray: nothing there
		r.mu.Lock()
		r.secondary++
		r.mu.Unlock()
		return model3d.RayCollision{}, nil, false
	}
	d := m3.V3(ray.Direction)
	px, py, lambda := r.c.Cam.projectDir(d, r.maxX, r.maxY)
	ix, iy := math.Round(px), math.Round(py)
	r.mu.Lock()
	defer r.mu.Unlock()
	coll := model3d.RayCollision{Scale: 1, Normal: ray.Direction.Normalize().Scale(-1)}
	if !(lambda > 0) || !(ix >= 0 && ix <= r.maxX && iy >= 0 && iy <= r.maxY) || math.IsNaN(px) || math.IsNaN(py) {
		r.stray = append(r.stray, d)
		return coll, &sampleMat{}, true
	}
	if j := math.Max(math.Abs(px-ix), math.Abs(py-iy)); j > r.maxJitter {
		r.maxJitter = j
	}
	idx := int(ix) + int(iy)*r.c.W
	v := r.c.radiance(idx, len(r.recs[idx]))
	r.recs[idx] = append(r.recs[idx], v)
	mat := &sampleMat{em: v.col()}
	if r.useAmbient {
		// split the radiance between emission and ambient light: a primary hit shows both
		mat.em, mat.amb = v.col().Scale(0.25), v.col().Scale(0.75)
		// the renderer adds them in floating point; record what it will actually see
		r.recs[idx][len(r.recs[idx])-1] = colArr(mat.em.Add(mat.amb))
	}
	return coll, mat, true
}

func (c *samplerCase) convergence() func(mean, stddev render3d.Color) bool {
	switch c.Conv {
	case "always":
		return func(mean, stddev render3d.Color) bool { return true }
	case "never":
		return func(mean, stddev render3d.Color) bool { return false }
	case "stddev":
		return func(mean, stddev render3d.Color) bool { return stddev.MaxCoord() < c.ConvThr }
	case "mean":
		return func(mean, stddev render3d.Color) bool { return mean.X > c.ConvThr }
	}
	return nil
}

func (c *samplerCase) hasRule() bool {
	return c.MinSamples != 0 && (c.MaxStddev != 0 || c.Conv != "")
}

// verdict of the stopping rule after n >= 2 samples with the given running sums: +1 certainly
// converged, -1 certainly not, 0 undecidable.  "Standard deviation" of the pixel is taken to be
// anything between the population formula sqrt(var/n) and the library's
// sqrt(var)*sqrt(n)/(n-1); the textbook standard error sqrt(var/(n-1)) lies in between.
func (c *samplerCase) verdict(n int, sum, sq rgb) int {
	fn := float64(n)
	var mean, lo, hi rgb
	for ch := 0; ch < 3; ch++ {
		mean[ch] = sum[ch] / fn
		v := math.Max(0, sq[ch]/fn-mean[ch]*mean[ch])
		// cancellation in E[x^2] - mean^2: absolute error up to ~n * 2^-52 * E[x^2]
		slack := math.Sqrt(fn*4e-16*(sq[ch]/fn+1e-300)) + 1e-12
		lo[ch] = math.Sqrt(v/fn)*(1-1e-9) - slack
		hi[ch] = math.Sqrt(v*fn)/(fn-1)*(1+1e-9) + slack
	}
	switch c.Conv {
	case "always":
		return 1
	case "never":
		return -1
	case "mean":
		tol := 1e-12 * (1 + math.Abs(c.ConvThr))
		if mean[0] > c.ConvThr+tol {
			return 1
		} else if mean[0] < c.ConvThr-tol {
			return -1
		}
		return 0
	case "stddev":
		mlo, mhi := math.Max(lo[0], math.Max(lo[1], lo[2])), math.Max(hi[0], math.Max(hi[1], hi[2]))
		if mhi < c.ConvThr {
			return 1
		} else if mlo >= c.ConvThr {
			return -1
		}
		return 0
	}
	// documented default: every channel below MaxStddev, or (OversaturatedStddevs != 0) more than
	// that many standard deviations above the maximum brightness 1
	all, none := true, false
	for ch := 0; ch < 3; ch++ {
		sure := hi[ch] < c.MaxStddev || (c.Oversat != 0 && mean[ch]-c.Oversat*hi[ch] > 1+1e-12)
		surenot := lo[ch] >= c.MaxStddev && !(c.Oversat != 0 && mean[ch]-c.Oversat*lo[ch] > 1-1e-12)
		if !sure {
			all = false
		}
		if surenot {
			none = true
		}
	}
	if all {
		return 1
	} else if none {
		return -1
	}
	return 0
}

func genSampler(t *rapid.T) samplerCase {
	c := samplerCase{}
	ncpu := runtime.NumCPU()
	switch gen.Int(t, 0, 4, "sizeclass") {
	case 0: // fewer pixels than workers
		for i := 0; i < 50; i++ {
			c.W, c.H = gen.Int(t, 1, 17, "w"), gen.Int(t, 1, 9, "h")
			if c.W*c.H < ncpu {
				break
			}
			c.W, c.H = gen.Int(t, 1, 3, "w3"), gen.Int(t, 1, 3, "h3")
		}
	case 1: // exactly as many (when the worker count factors into the size range)
		c.W, c.H = 4, 4
		var opts [][2]int
		for w := 1; w <= 17; w++ {
			for h := 1; h <= 9; h++ {
				if w*h == ncpu {
					opts = append(opts, [2]int{w, h})
				}
			}
		}
		if len(opts) > 0 {
			k := opts[gen.Int(t, 0, len(opts)-1, "factor")]
			c.W, c.H = k[0], k[1]
		}
	default:
		c.W, c.H = gen.Int(t, 1, 17, "w"), gen.Int(t, 1, 9, "h")
	}
	origin := gen.Vec3(t, 3, "origin")
	c.Cam = genCamLooking(t, origin, origin.Add(gen.Dir3(t, "look")), 0.05, 3, "cam")
	c.Renderer = rapid.SampledFrom([]string{"rrt", "rrt", "rrt", "bidir"}).Draw(t, "renderer")
	c.Mode = rapid.SampledFrom([]string{"render", "render", "render", "render", "render", "variance", "rayvariance"}).Draw(t, "mode")
	c.NumSamples = gen.Int(t, 1, 64, "numsamples")
	if c.Mode != "render" && c.NumSamples < 2 {
		c.NumSamples = 2
	}
	switch gen.Int(t, 0, 9, "rule") {
	case 0: // variance threshold without MinSamples: documented as "no early stopping"
		c.MaxStddev = gen.LogF(t, 1e-3, 0.5, "maxstddev")
	case 1: // MinSamples without a threshold: ditto
		c.MinSamples = gen.Int(t, 1, 20, "minsamples")
	case 2: // neither
	case 3, 4, 5, 6:
		c.MinSamples = gen.Int(t, 1, 1+c.NumSamples, "minsamples")
		if gen.Int(t, 0, 2, "minsmall") == 0 {
			c.MinSamples = gen.Int(t, 1, 4, "minsamples.small")
		}
		c.MaxStddev = gen.LogF(t, 1e-3, 0.5, "maxstddev")
		if rapid.Bool().Draw(t, "oversat") {
			c.Oversat = gen.F(t, 0.3, 4, "oversat.v")
		}
	default:
		c.MinSamples = gen.Int(t, 1, 1+c.NumSamples, "minsamples")
		if gen.Int(t, 0, 2, "minsmall") == 0 {
			c.MinSamples = gen.Int(t, 1, 4, "minsamples.small")
		}
		c.Conv = rapid.SampledFrom([]string{"always", "never", "stddev", "mean"}).Draw(t, "conv")
		switch c.Conv {
		case "stddev":
			c.ConvThr = gen.LogF(t, 1e-3, 0.5, "convthr")
		case "mean":
			c.ConvThr = gen.F(t, 0.1, 2.5, "convthr")
		}
		if rapid.Bool().Draw(t, "also-maxstddev") {
			// must be ignored when a custom criterion is given
			c.MaxStddev = gen.LogF(t, 1e-3, 100, "maxstddev")
			c.Oversat = gen.F(t, 0, 4, "oversat.v")
		}
	}
	c.Cutoff = rapid.SampledFrom([]float64{0, 0, 1e-3, 0.5, 1}).Draw(t, "cutoff")
	c.MaxDepth = rapid.SampledFrom([]int{0, 0, 1, 3}).Draw(t, "maxdepth")
	if c.Renderer == "bidir" && c.MaxDepth == 0 {
		c.MaxDepth = 1 // the eye path needs one vertex to see anything
	}
	if gen.Int(t, 0, 4, "aa") < 2 {
		c.Antialias = gen.F(t, 0.1, 0.9, "antialias")
	}
	c.Procs = rapid.SampledFrom([]int{1, 2, 5, 16}).Draw(t, "gomaxprocs")
	c.Seed = rapid.Uint64().Draw(t, "seed")
	c.Log = rapid.Bool().Draw(t, "log")
	return c
}

func checkSampler(c samplerCase, o *kit.Obs) error {
	if c.W == 1 || c.H == 1 {
		o.Label("one-pixel-axis")
		if kit.Excluded("one-pixel-axis") {
			kit.CountExcluded("one-pixel-axis")
			return nil
		}
	}
	old := runtime.GOMAXPROCS(c.Procs)
	defer runtime.GOMAXPROCS(old)

	rec := &recorder{c: &c, maxX: float64(c.W - 1), maxY: float64(c.H - 1), recs: make([][]rgb, c.W*c.H),
		useAmbient: c.Renderer == "rrt" && c.Seed%2 == 0}
	img := render3d.NewImage(c.W, c.H)
	sentinel := model3d.XYZ(-7, -7, -7)
	img.SetAll(sentinel)
	var logMu sync.Mutex
	var logs [][2]float64
	var logFunc func(frac, rate float64)
	if c.Log {
		logFunc = func(frac, rate float64) {
			logMu.Lock()
			logs = append(logs, [2]float64{frac, rate})
			logMu.Unlock()
		}
	}
	var rayVar float64
	switch c.Renderer {
	case "rrt":
		r := &render3d.RecursiveRayTracer{Camera: c.Cam.build(), MaxDepth: c.MaxDepth, NumSamples: c.NumSamples, MinSamples: c.MinSamples,
			MaxStddev: c.MaxStddev, OversaturatedStddevs: c.Oversat, Convergence: c.convergence(), Cutoff: c.Cutoff,
			Antialias: c.Antialias, LogFunc: logFunc}
		switch c.Mode {
		case "render":
			r.Render(img, rec)
		case "variance":
			r.RenderVariance(img, rec, c.NumSamples)
		default:
			rayVar = r.RayVariance(rec, c.W, c.H, c.NumSamples)
		}
	case "bidir":
		// the light is needed by the algorithm but is not part of the recorded scene; the scene's
		// materials are black, so the only contribution to a sample is the emission seen directly
		light := render3d.NewSphereAreaLight(&model3d.Sphere{Center: model3d.XYZ(50, 60, 70), Radius: 1}, render3d.NewColor(1))
		r := &render3d.BidirPathTracer{Camera: c.Cam.build(), Light: light, MaxDepth: c.MaxDepth, NumSamples: c.NumSamples,
			MinSamples: c.MinSamples, MaxStddev: c.MaxStddev, OversaturatedStddevs: c.Oversat, Convergence: c.convergence(),
			Antialias: c.Antialias, LogFunc: logFunc}
		switch c.Mode {
		case "render":
			r.Render(img, rec)
		case "variance":
			r.RenderVariance(img, rec, c.NumSamples)
		default:
			rayVar = r.RayVariance(rec, c.W, c.H, c.NumSamples)
		}
	}

	o.Label("renderer:" + c.Renderer)
	o.Label("mode:" + c.Mode)
	o.Labelf("gomaxprocs:%d", c.Procs)
	npix, ncpu := c.W*c.H, runtime.NumCPU()
	switch {
	case npix < ncpu:
		o.Label("pixels<workers")
	case npix == ncpu:
		o.Label("pixels==workers")
	default:
		o.Label("pixels>workers")
	}
	rule := "rule:none"
	if c.hasRule() {
		rule = "rule:default"
		if c.Conv != "" {
			rule = "rule:" + c.Conv
		} else if c.Oversat != 0 {
			rule = "rule:default+oversaturated"
		}
	}
	o.Label(rule)

	if len(rec.stray) > 0 {
		return fmt.Errorf("%d primary rays go through no pixel of the %dx%d image (first direction %v): samples are not of the pixel's own scene point",
			len(rec.stray), c.W, c.H, rec.stray[0])
	}
	jit := c.Antialias
	if c.Mode == "rayvariance" {
		jit = 0 // documented: "Antialiasing is not used"
	}
	if rec.maxJitter > jit/2+1e-7 {
		return fmt.Errorf("a primary ray is %.3g pixels off its pixel centre; Antialias=%g allows %g", rec.maxJitter, jit, jit/2)
	}
	if jit > 0 {
		o.Label("antialias")
	}

	early := false
	total := 0
	var varSum float64
	for idx := 0; idx < npix; idx++ {
		s := rec.recs[idx]
		n := len(s)
		total += n
		x, y := idx%c.W, idx/c.W
		if n == 0 {
			return fmt.Errorf("pixel (%d,%d) of %dx%d was never sampled", x, y, c.W, c.H)
		}
		var sum, sq, abs rgb
		for _, v := range s {
			for ch := 0; ch < 3; ch++ {
				sum[ch] += v[ch]
				sq[ch] += v[ch] * v[ch]
				abs[ch] = math.Max(abs[ch], v[ch])
			}
		}
		if c.Mode != "render" {
			if n != c.NumSamples {
				return fmt.Errorf("variance of pixel (%d,%d): %d samples were taken, %d requested", x, y, n, c.NumSamples)
			}
			// unbiased sample variance (two-pass for accuracy)
			var want rgb
			for ch := 0; ch < 3; ch++ {
				m := sum[ch] / float64(n)
				for _, v := range s {
					want[ch] += (v[ch] - m) * (v[ch] - m)
				}
				want[ch] /= float64(n - 1)
				varSum += want[ch]
			}
			if c.Mode == "variance" {
				got := colArr(img.Data[idx])
				for ch := 0; ch < 3; ch++ {
					// the one-pass formula cancels: error ~ n * eps * E[x^2]
					if tol := 1e-12*abs[ch]*abs[ch]*float64(n) + 1e-9*want[ch]; !(math.Abs(got[ch]-want[ch]) <= tol) {
						return fmt.Errorf("RenderVariance pixel (%d,%d) channel %d = %.17g, unbiased variance of its %d recorded samples is %.17g", x, y, ch, got[ch], n, want[ch])
					}
				}
			}
			continue
		}
		got := colArr(img.Data[idx])
		if img.Data[idx] == sentinel {
			return fmt.Errorf("pixel (%d,%d) was sampled %d times but never written", x, y, n)
		}
		for ch := 0; ch < 3; ch++ {
			want := sum[ch] / float64(n)
			// sum in the same order; x*(1/n) versus x/n and nothing else: a few ulps
			if !(math.Abs(got[ch]-want) <= 1e-14*abs[ch]) {
				return fmt.Errorf("pixel (%d,%d) channel %d = %.17g but the mean of its %d recorded samples is %.17g (sum %.17g; sum/(n-1) = %.17g, sum/NumSamples = %.17g)",
					x, y, ch, got[ch], n, want, sum[ch], sum[ch]/float64(n-1), sum[ch]/float64(c.NumSamples))
			}
		}
		// sample count
		if n > c.NumSamples {
			return fmt.Errorf("pixel (%d,%d) was sampled %d times, NumSamples = %d (rendered more than once?)", x, y, n, c.NumSamples)
		}
		if !c.hasRule() {
			if n != c.NumSamples {
				return fmt.Errorf("pixel (%d,%d) was sampled %d times without a convergence rule (MinSamples=%d MaxStddev=%g), NumSamples = %d", x, y, n, c.MinSamples, c.MaxStddev, c.NumSamples)
			}
			continue
		}
		if n < c.NumSamples {
			early = true
		}
		first := c.MinSamples
		if first < 2 {
			first = 2 // no deviation exists for one sample; stopping after a single sample is accepted below if the rule agrees
		}
		if n < c.NumSamples && n < c.MinSamples {
			return fmt.Errorf("pixel (%d,%d) stopped after %d samples, before MinSamples = %d", x, y, n, c.MinSamples)
		}
		var ps, pq rgb
		for k, v := range s {
			for ch := 0; ch < 3; ch++ {
				ps[ch] += v[ch]
				pq[ch] += v[ch] * v[ch]
			}
			m := k + 1
			if m < first {
				continue
			}
			vd := c.verdict(m, ps, pq)
			if m < n && vd > 0 {
				return fmt.Errorf("pixel (%d,%d): the %s was satisfied after %d samples (MinSamples %d) but sampling went on to %d", x, y, rule, m, c.MinSamples, n)
			}
			if m == n && n < c.NumSamples && vd < 0 {
				return fmt.Errorf("pixel (%d,%d): sampling stopped after %d of %d samples although the %s was not satisfied", x, y, n, c.NumSamples, rule)
			}
			if vd == 0 {
				o.Label("undecidable-step")
			}
		}
	}
	if c.Mode == "rayvariance" {
		want := varSum / float64(3*npix)
		if !(math.Abs(rayVar-want) <= 1e-9*want+1e-10) {
			return fmt.Errorf("RayVariance = %.17g, mean unbiased variance of the recorded samples = %.17g", rayVar, want)
		}
	}
	if c.Log && c.Mode == "render" {
		// documented: frac = fraction of pixels coloured, sampleRate = mean number of rays per pixel;
		// it is called every max(1, pixels/1000) = 1 pixels here
		if len(logs) != npix {
			return fmt.Errorf("LogFunc was called %d times for %d pixels", len(logs), npix)
		}
		last := logs[len(logs)-1]
		if last[0] != 1 || math.Abs(last[1]-float64(total)/float64(npix)) > 1e-9*last[1] {
			return fmt.Errorf("last LogFunc call reported frac=%g sampleRate=%g; %d samples were taken for %d pixels", last[0], last[1], total, npix)
		}
		// call k (1-based, made in sequence by the rendering goroutine) comes after exactly k pixels were
		// coloured: frac = k/npix, and the mean number of rays per coloured pixel lies between the means of
		// the k smallest and the k largest per-pixel sample counts, whichever pixels finished first
		counts := make([]int, npix)
		for idx := range counts {
			counts[idx] = len(rec.recs[idx])
		}
		sort.Ints(counts)
		lowSum, highSum := 0, 0
		for i := range logs {
			k := i + 1
			lowSum += counts[i]
			highSum += counts[npix-1-i]
			if math.Abs(logs[i][0]-float64(k)/float64(npix)) > 1e-12 {
				return fmt.Errorf("LogFunc call %d of %d reported frac=%.17g, %d of %d pixels were coloured", k, npix, logs[i][0], k, npix)
			}
			lo, hi := float64(lowSum)/float64(k), float64(highSum)/float64(k)
			if !(logs[i][1] >= lo*(1-1e-9) && logs[i][1] <= hi*(1+1e-9)) {
				return fmt.Errorf("LogFunc call %d of %d reported sampleRate=%.17g; any %d pixels took between %g and %g samples on average", k, npix, logs[i][1], k, lo, hi)
			}
		}
	}
	if early {
		o.Label("early-stop")
	}
	if early || npix != ncpu {
		o.NonTrivial()
	}
	return nil
}
