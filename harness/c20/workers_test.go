package c20

// Clause (a), worker counts: "every pixel is rendered exactly once regardless of worker count".
// The renderers size their worker pool with runtime.NumCPU, which a process cannot change once it
// runs.  The sampler check is therefore re-run in a child process of this very test binary under
// `taskset -c 0-(k-1)` (k in {1, 2, 4, 5, 6}); the child evaluates the case through the harness's replay
// mode (VERIF_REPLAY) with the full recording oracle of checkSampler and reports its verdict on
// stdout.  The image sizes are chosen below, equal to and above k.

import (
	"bytes"
	"context"
	"encoding/json"
	"fmt"
	"os"
	"os/exec"
	"runtime"
	"strings"
	"time"

	"pgregory.net/rapid"
	"verifharness/gen"
	"verifharness/kit"
)

const workersClause = "C20/sampler/worker-count"

type workersCase struct {
	samplerCase
	CPUs int `json:"cpus"`
}

func genWorkers(t *rapid.T) workersCase {
	c := workersCase{samplerCase: genSampler(t)}
	c.CPUs = rapid.SampledFrom([]int{1, 2, 4, 5, 6}).Draw(t, "cpus") // 4 and 6 factor into images without a one-pixel axis
	k := c.CPUs
	switch gen.Int(t, 0, 4, "sizeclass.k") {
	case 0: // as many pixels as workers, or one more / one fewer
		n := k + gen.Int(t, -1, 1, "delta")
		if n < 1 {
			n = 1
		}
		// a factorisation of n within the size range (n <= 6)
		var opts [][2]int
		for w := 1; w <= n; w++ {
			if n%w == 0 && n/w <= 9 {
				opts = append(opts, [2]int{w, n / w})
			}
		}
		f := opts[gen.Int(t, 0, len(opts)-1, "factor")]
		c.W, c.H = f[0], f[1]
	case 1: // a small multiple of the worker count
		m := gen.Int(t, 2, 3, "multiple")
		c.W, c.H = k, m
		if rapid.Bool().Draw(t, "flip") {
			c.W, c.H = m, k
		}
	case 2: // no axis of one pixel, few pixels
		c.W, c.H = gen.Int(t, 2, 4, "w.small"), gen.Int(t, 2, 3, "h.small")
	default: // the sampler's own choice (general sizes)
	}
	// keep the children cheap: they pay a process start each
	if c.NumSamples > 24 {
		c.NumSamples = 1 + c.NumSamples%24
		if c.Mode != "render" && c.NumSamples < 2 {
			c.NumSamples = 2
		}
		if c.MinSamples > c.NumSamples+1 {
			c.MinSamples = c.NumSamples + 1
		}
	}
	return c
}

func checkWorkers(c workersCase, o *kit.Obs) error {
	o.Labelf("cpus:%d", c.CPUs)
	npix := c.W * c.H
	switch {
	case npix < c.CPUs:
		o.Label("pixels<workers")
	case npix == c.CPUs:
		o.Label("pixels==workers")
	case npix%c.CPUs == 0:
		o.Label("pixels=multiple-of-workers")
	default:
		o.Label("pixels>workers")
	}
	if runtime.NumCPU() == c.CPUs {
		// this process already has the requested number of CPUs (it is the child, or the machine is small)
		o.Label("in-process")
		return checkSampler(c.samplerCase, o)
	}
	if os.Getenv("VERIF_C20_CHILD") != "" {
		return fmt.Errorf("%w: the child process sees %d CPUs, %d were requested with taskset", kit.ErrInfra, runtime.NumCPU(), c.CPUs)
	}
	if (c.W == 1 || c.H == 1) && kit.Excluded("one-pixel-axis") {
		o.Label("one-pixel-axis")
		kit.CountExcluded("one-pixel-axis")
		return nil
	}
	if runtime.NumCPU() < c.CPUs {
		o.Skip("fewer CPUs available than requested")
		return nil
	}
	rec, err := json.Marshal(map[string]any{"clause": workersClause, "msg": "", "case": c})
	if err != nil {
		return fmt.Errorf("%w: %v", kit.ErrInfra, err)
	}
	f, err := os.CreateTemp("", "c20-workers-*.json")
	if err != nil {
		o.Skip("cannot create a temporary file")
		return nil
	}
	defer os.Remove(f.Name())
	f.Write(rec)
	f.Close()

	// generous: a sampler case takes milliseconds, a process start some tens of milliseconds
	ctx, cancel := context.WithTimeout(context.Background(), 100*time.Second)
	defer cancel()
	cmd := exec.CommandContext(ctx, "taskset", "-c", fmt.Sprintf("0-%d", c.CPUs-1), os.Args[0], "-test.run", "^TestProp$", "-test.timeout", "0")
	cmd.Env = append(os.Environ(), "VERIF_REPLAY="+f.Name(), "VERIF_REPLAY_REPS=1", "VERIF_C20_CHILD=1")
	var out bytes.Buffer
	cmd.Stdout, cmd.Stderr = &out, &out
	runErr := cmd.Run()
	if ctx.Err() != nil {
		return fmt.Errorf("rendering with %d CPUs (taskset) did not finish within 100 s: %dx%d image, %d samples", c.CPUs, c.W, c.H, c.NumSamples)
	}
	for _, line := range strings.Split(out.String(), "\n") {
		switch {
		case strings.HasPrefix(line, "REPLAY-PASS"):
			if npix != c.CPUs || c.hasRule() {
				o.NonTrivial()
			}
			return nil
		case strings.HasPrefix(line, "REPLAY-FAIL"):
			return fmt.Errorf("with %d CPUs (worker count %d): %s", c.CPUs, c.CPUs, strings.TrimPrefix(line, "REPLAY-FAIL "+workersClause+": "))
		case strings.HasPrefix(line, "REPLAY-INFRA"):
			o.Skip("child process: infrastructure")
			return nil
		}
	}
	if _, isExit := runErr.(*exec.ExitError); isExit && strings.Contains(out.String(), "goroutine ") {
		// the child died inside the library (panic in a worker goroutine, deadlock report)
		return fmt.Errorf("the renderer crashed with %d CPUs: %s", c.CPUs, firstLines(out.String(), 6))
	}
	// taskset missing, affinity not permitted, ...
	o.Skip("child process could not be run under taskset")
	return nil
}

func firstLines(s string, n int) string {
	l := strings.Split(strings.TrimSpace(s), "\n")
	if len(l) > n {
		l = l[:n]
	}
	return strings.Join(l, " | ")
}
