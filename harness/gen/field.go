package gen

import (
	"math"

	"github.com/unixpickle/model3d/model2d"
	"github.com/unixpickle/model3d/model3d"
	"pgregory.net/rapid"
)

// Field3 is a trilinear random field on an n^3 grid of unit cells; the solid is
// {interp > 0}.  The outermost grid layer is negative, so the solid stays strictly
// inside its bounds [0, n-1]^3; arbitrary topology, exactly one transition per
// sign-changing grid edge.
type Field3 struct {
	N     int       `json:"n"`
	Vals  []float64 `json:"vals"`  // n^3 values, x fastest
	Scale float64   `json:"scale"` // world size of one grid cell
}

func (f Field3) at(x, y, z int) float64 { return f.Vals[x+f.N*(y+f.N*z)] }

func (f Field3) Value(px, py, pz float64) float64 {
	px, py, pz = px/f.Scale, py/f.Scale, pz/f.Scale
	m := float64(f.N - 1)
	if px < 0 || py < 0 || pz < 0 || px > m || py > m || pz > m {
		return -1
	}
	ix, iy, iz := int(px), int(py), int(pz)
	if ix >= f.N-1 {
		ix = f.N - 2
	}
	if iy >= f.N-1 {
		iy = f.N - 2
	}
	if iz >= f.N-1 {
		iz = f.N - 2
	}
	fx, fy, fz := px-float64(ix), py-float64(iy), pz-float64(iz)
	var s float64
	for d := 0; d < 8; d++ {
		dx, dy, dz := d&1, d>>1&1, d>>2&1
		w := (1 - fx + float64(dx)*(2*fx-1)) * (1 - fy + float64(dy)*(2*fy-1)) * (1 - fz + float64(dz)*(2*fz-1))
		s += w * f.at(ix+dx, iy+dy, iz+dz)
	}
	return s
}

type fieldSolid3 struct{ f Field3 }

func (s fieldSolid3) Min() model3d.Coord3D { return model3d.XYZ(0, 0, 0) }
func (s fieldSolid3) Max() model3d.Coord3D {
	m := float64(s.f.N-1) * s.f.Scale
	return model3d.XYZ(m, m, m)
}
func (s fieldSolid3) Contains(c model3d.Coord3D) bool { return s.f.Value(c.X, c.Y, c.Z) > 0 }

func (f Field3) Solid() model3d.Solid { return fieldSolid3{f} }

func Field3Gen(t *rapid.T, maxN int, label string) Field3 {
	n := rapid.IntRange(3, maxN).Draw(t, label+".n")
	f := Field3{N: n, Vals: make([]float64, n*n*n), Scale: LogF(t, 0.3, 2, label+".scale")}
	bias := F(t, -0.5, 0.5, label+".bias")
	for z := 0; z < n; z++ {
		for y := 0; y < n; y++ {
			for x := 0; x < n; x++ {
				v := -1.0
				if x > 0 && y > 0 && z > 0 && x < n-1 && y < n-1 && z < n-1 {
					v = F(t, -1, 1, "v") + bias
					if math.Abs(v) < 1e-3 {
						v = 1e-3
					}
				}
				f.Vals[x+n*(y+n*z)] = v
			}
		}
	}
	return f
}

// Field2 is the bilinear 2D analogue.
type Field2 struct {
	N     int       `json:"n"`
	Vals  []float64 `json:"vals"`
	Scale float64   `json:"scale"`
}

func (f Field2) Value(px, py float64) float64 {
	px, py = px/f.Scale, py/f.Scale
	m := float64(f.N - 1)
	if px < 0 || py < 0 || px > m || py > m {
		return -1
	}
	ix, iy := int(px), int(py)
	if ix >= f.N-1 {
		ix = f.N - 2
	}
	if iy >= f.N-1 {
		iy = f.N - 2
	}
	fx, fy := px-float64(ix), py-float64(iy)
	v := func(x, y int) float64 { return f.Vals[x+f.N*y] }
	return (1-fx)*(1-fy)*v(ix, iy) + fx*(1-fy)*v(ix+1, iy) + (1-fx)*fy*v(ix, iy+1) + fx*fy*v(ix+1, iy+1)
}

type fieldSolid2 struct{ f Field2 }

func (s fieldSolid2) Min() model2d.Coord { return model2d.XY(0, 0) }
func (s fieldSolid2) Max() model2d.Coord {
	m := float64(s.f.N-1) * s.f.Scale
	return model2d.XY(m, m)
}
func (s fieldSolid2) Contains(c model2d.Coord) bool { return s.f.Value(c.X, c.Y) > 0 }

func (f Field2) Solid() model2d.Solid { return fieldSolid2{f} }

func Field2Gen(t *rapid.T, maxN int, label string) Field2 {
	n := rapid.IntRange(3, maxN).Draw(t, label+".n")
	f := Field2{N: n, Vals: make([]float64, n*n), Scale: LogF(t, 0.3, 2, label+".scale")}
	bias := F(t, -0.5, 0.5, label+".bias")
	for y := 0; y < n; y++ {
		for x := 0; x < n; x++ {
			v := -1.0
			if x > 0 && y > 0 && x < n-1 && y < n-1 {
				v = F(t, -1, 1, "v") + bias
				if math.Abs(v) < 1e-3 {
					v = 1e-3
				}
			}
			f.Vals[x+n*y] = v
		}
	}
	return f
}
