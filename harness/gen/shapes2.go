package gen

import (
	"math"

	"github.com/unixpickle/model3d/model2d"
	"pgregory.net/rapid"
	"verifharness/kit"
)

// Shape2 describes a 2D primitive.
//
//	circle:   A=center, R
//	rect:     A=min, B=max
//	capsule:  A=p1, B=p2, R
//	triangle: A, B, C
type Shape2 struct {
	Kind string  `json:"kind"`
	A    kit.V2  `json:"a"`
	B    kit.V2  `json:"b"`
	C    kit.V2  `json:"c"`
	R    float64 `json:"r,omitempty"`
}

// Primitive2 is what every 2D library primitive implements.
type Primitive2 interface {
	model2d.Solid
	model2d.Collider
	model2d.PointSDF
	model2d.NormalSDF
}

func c2(v kit.V2) model2d.Coord { return model2d.XY(v[0], v[1]) }

func (s Shape2) Build() Primitive2 {
	switch s.Kind {
	case "circle":
		return &model2d.Circle{Center: c2(s.A), Radius: s.R}
	case "rect":
		return &model2d.Rect{MinVal: c2(s.A), MaxVal: c2(s.B)}
	case "capsule":
		return &model2d.Capsule{P1: c2(s.A), P2: c2(s.B), Radius: s.R}
	case "triangle":
		return model2d.NewTriangle(c2(s.A), c2(s.B), c2(s.C))
	}
	panic("gen: unknown 2D shape kind " + s.Kind)
}

func (s Shape2) Size() float64 {
	switch s.Kind {
	case "circle":
		return s.R
	case "rect":
		return s.B.Sub(s.A).Norm()
	case "triangle":
		return math.Max(s.A.Dist(s.B), math.Max(s.B.Dist(s.C), s.A.Dist(s.C)))
	}
	return s.A.Dist(s.B) + s.R
}

func (s Shape2) Centre() kit.V2 {
	switch s.Kind {
	case "circle":
		return s.A
	case "triangle":
		return s.A.Add(s.B).Add(s.C).Scale(1.0 / 3)
	}
	return s.A.Mid(s.B)
}

// Ref2 is the result of a 2D reference distance query.
type Ref2 struct {
	SDF     float64
	Nearest kit.V2
	Normal  kit.V2
	Smooth  bool
	Margin  float64
}

// RefSDF is the independent closed-form signed distance (positive inside).
func (s Shape2) RefSDF(p kit.V2) Ref2 {
	switch s.Kind {
	case "circle":
		d := p.Sub(s.A)
		l := d.Norm()
		r := Ref2{SDF: s.R - l, Margin: l, Smooth: l > 1e-9*s.R}
		if l > 0 {
			r.Normal = d.Scale(1 / l)
			r.Nearest = s.A.Add(r.Normal.Scale(s.R))
		}
		return r
	case "capsule":
		d, c := kit.PointSegDist2(p, s.A, s.B)
		r := Ref2{SDF: s.R - d, Margin: d, Smooth: d > 1e-9*s.R}
		if d > 0 {
			r.Normal = p.Sub(c).Scale(1 / d)
			r.Nearest = c.Add(r.Normal.Scale(s.R))
		}
		return r
	case "rect":
		poly := []kit.V2{{s.A[0], s.A[1]}, {s.A[0], s.B[1]}, {s.B[0], s.B[1]}, {s.B[0], s.A[1]}} // clockwise
		return polyRef(poly, p)
	case "triangle":
		poly := []kit.V2{s.A, s.B, s.C}
		if kit.Orient2(s.A, s.B, s.C) > 0 { // make clockwise
			poly = []kit.V2{s.A, s.C, s.B}
		}
		return polyRef(poly, p)
	}
	panic("gen: unknown 2D shape kind " + s.Kind)
}

// polyRef: signed distance to a convex clockwise polygon (outward normal = direction rotated +90).
func polyRef(poly []kit.V2, p kit.V2) Ref2 {
	best, second := math.Inf(1), math.Inf(1)
	bi := 0
	var near kit.V2
	inside := true
	for i := range poly {
		a, b := poly[i], poly[(i+1)%len(poly)]
		if kit.Orient2(a, b, p) > 0 { // left of a clockwise edge: outside
			inside = false
		}
		d, c := kit.PointSegDist2(p, a, b)
		if d < best {
			second = best
			best, bi, near = d, i, c
		} else if d < second {
			second = d
		}
	}
	a, b := poly[bi], poly[(bi+1)%len(poly)]
	l := a.Dist(b)
	dir := b.Sub(a).Scale(1 / l)
	tt := near.Sub(a).Dot(dir)
	r := Ref2{SDF: -best, Nearest: near, Normal: kit.V2{-dir[1], dir[0]}}
	if inside {
		r.SDF = best
	}
	r.Margin = math.Min(second-best, math.Min(tt, l-tt))
	r.Smooth = r.Margin > 0
	return r
}

func (s Shape2) RefContains(p kit.V2) bool { return s.RefSDF(p).SDF >= 0 }

func Vec2(t *rapid.T, m float64, label string) kit.V2 {
	return kit.V2{F(t, -m, m, label+".x"), F(t, -m, m, label+".y")}
}

func Dir2(t *rapid.T, label string) kit.V2 {
	k := rapid.IntRange(0, 7).Draw(t, label+".kind")
	if k < 2 {
		var v kit.V2
		v[k] = 1
		if rapid.Bool().Draw(t, label+".neg") {
			v[k] = -1
		}
		return v
	}
	a := F(t, 0, 2*math.Pi, label+".angle")
	return kit.V2{math.Cos(a), math.Sin(a)}
}

var AllKinds2 = []string{"circle", "rect", "capsule", "triangle"}

func Shape2Gen(t *rapid.T, kinds []string, size, aspect float64, label string) Shape2 {
	kind := rapid.SampledFrom(kinds).Draw(t, label+".kind")
	c := Vec2(t, 1, label+".c")
	r := size * LogF(t, 0.3, 1, label+".r")
	switch kind {
	case "circle":
		return Shape2{Kind: kind, A: c, R: r}
	case "rect":
		h := kit.V2{r * LogF(t, 1/aspect, 1, label+".hx"), r * LogF(t, 1/aspect, 1, label+".hy")}
		return Shape2{Kind: kind, A: c.Sub(h), B: c.Add(h)}
	case "capsule":
		d := Dir2(t, label+".axis")
		asp := LogF(t, 1/aspect, aspect, label+".aspect")
		length, rad := r, r
		if asp > 1 {
			rad = r / asp
		} else {
			length = r * asp
		}
		return Shape2{Kind: kind, A: c.Add(d.Scale(length / 2)), B: c.Sub(d.Scale(length / 2)), R: rad}
	case "triangle":
		for i := 0; ; i++ {
			a, b, cc := c.Add(Vec2(t, r, label+".p0")), c.Add(Vec2(t, r, label+".p1")), c.Add(Vec2(t, r, label+".p2"))
			area := math.Abs(kit.Orient2(a, b, cc)) / 2
			if area > r*r/(4*aspect) || i > 20 {
				if area <= r*r/(4*aspect) {
					return Shape2{Kind: kind, A: c, B: c.Add(kit.V2{r, 0}), C: c.Add(kit.V2{0, r})}
				}
				return Shape2{Kind: kind, A: a, B: b, C: cc}
			}
		}
	}
	panic("gen: unknown kind " + kind)
}

// Node2 is a 2D CSG tree.
type Node2 struct {
	Op    string   `json:"op"` // prim, join, intersect, subtract
	Shape *Shape2  `json:"shape,omitempty"`
	Kids  []*Node2 `json:"kids,omitempty"`
}

func (n *Node2) Build() model2d.Solid {
	switch n.Op {
	case "prim":
		return n.Shape.Build()
	case "join":
		var js model2d.JoinedSolid
		for _, k := range n.Kids {
			js = append(js, k.Build())
		}
		return js
	case "intersect":
		var is model2d.IntersectedSolid
		for _, k := range n.Kids {
			is = append(is, k.Build())
		}
		return is
	case "subtract":
		return &model2d.SubtractedSolid{Positive: n.Kids[0].Build(), Negative: n.Kids[1].Build()}
	}
	panic("gen: unknown 2D node op " + n.Op)
}

func (n *Node2) RefContains(p kit.V2, margin float64) (in bool, sure bool) {
	switch n.Op {
	case "prim":
		d := n.Shape.RefSDF(p).SDF
		return d >= 0, math.Abs(d) > margin
	case "join":
		in, sure = false, true
		for _, k := range n.Kids {
			i, s := k.RefContains(p, margin)
			in = in || i
			sure = sure && s
		}
		return
	case "intersect":
		in, sure = true, true
		for _, k := range n.Kids {
			i, s := k.RefContains(p, margin)
			in = in && i
			sure = sure && s
		}
		return
	case "subtract":
		i0, s0 := n.Kids[0].RefContains(p, margin)
		i1, s1 := n.Kids[1].RefContains(p, margin)
		return i0 && !i1, s0 && s1
	}
	panic("gen: unknown 2D node op " + n.Op)
}

func Node2Gen(t *rapid.T, depth int, aspect float64, label string) *Node2 {
	if depth <= 1 || rapid.IntRange(0, 3).Draw(t, label+".leaf") == 0 {
		s := Shape2Gen(t, AllKinds2, 0.8, aspect, label+".prim")
		return &Node2{Op: "prim", Shape: &s}
	}
	op := rapid.SampledFrom([]string{"join", "join", "intersect", "subtract"}).Draw(t, label+".op")
	switch op {
	case "join", "intersect":
		k := rapid.IntRange(1, 3).Draw(t, label+".n")
		n := &Node2{Op: op}
		for i := 0; i < k; i++ {
			n.Kids = append(n.Kids, Node2Gen(t, depth-1, aspect, label+".k"))
		}
		return n
	default:
		return &Node2{Op: op, Kids: []*Node2{Node2Gen(t, depth-1, aspect, label+".pos"), Node2Gen(t, depth-1, aspect, label+".neg")}}
	}
}

// Scaled returns the same shape in other units (see Shape3.Scaled).
func (s Shape2) Scaled(k float64) Shape2 {
	out := s
	out.A, out.B, out.C = s.A.Scale(k), s.B.Scale(k), s.C.Scale(k)
	out.R = s.R * k
	return out
}
