// Package gen holds the shared, JSON-serialisable case descriptions, their rapid
// generators, builders into library objects, and independent reference
// implementations (closed-form membership / distance).
package gen

import (
	"math"

	"github.com/unixpickle/model3d/model3d"
	"pgregory.net/rapid"
	"verifharness/kit"
)

// Shape3 describes a 3D primitive.
//
//	sphere:   A=center, R
//	rect:     A=min, B=max
//	capsule:  A=p1, B=p2, R
//	cylinder: A=p1, B=p2, R
//	cone:     A=tip, B=base, R
//	torus:    A=center, B=axis (any non-zero), R=outer (major) radius, R2=inner (tube) radius
type Shape3 struct {
	Kind string  `json:"kind"`
	A    kit.V3  `json:"a"`
	B    kit.V3  `json:"b"`
	R    float64 `json:"r,omitempty"`
	R2   float64 `json:"r2,omitempty"`
}

// Primitive3 is what every library primitive implements.
type Primitive3 interface {
	model3d.Solid
	model3d.Collider
	model3d.PointSDF
	model3d.NormalSDF
}

func c3(v kit.V3) model3d.Coord3D { return model3d.XYZ(v[0], v[1], v[2]) }

// Build constructs the library object.
func (s Shape3) Build() Primitive3 {
	switch s.Kind {
	case "sphere":
		return &model3d.Sphere{Center: c3(s.A), Radius: s.R}
	case "rect":
		return &model3d.Rect{MinVal: c3(s.A), MaxVal: c3(s.B)}
	case "capsule":
		return &model3d.Capsule{P1: c3(s.A), P2: c3(s.B), Radius: s.R}
	case "cylinder":
		return &model3d.Cylinder{P1: c3(s.A), P2: c3(s.B), Radius: s.R}
	case "cone":
		return &model3d.Cone{Tip: c3(s.A), Base: c3(s.B), Radius: s.R}
	case "torus":
		return &model3d.Torus{Center: c3(s.A), Axis: c3(s.B), OuterRadius: s.R, InnerRadius: s.R2}
	}
	panic("gen: unknown shape kind " + s.Kind)
}

// Size is a characteristic length of the shape (for relative tolerances).
func (s Shape3) Size() float64 {
	switch s.Kind {
	case "sphere":
		return s.R
	case "rect":
		return s.B.Sub(s.A).Norm()
	case "torus":
		return s.R + s.R2
	}
	return s.A.Dist(s.B) + s.R
}

// Centre is a point well inside or at the middle of the shape.
func (s Shape3) Centre() kit.V3 {
	switch s.Kind {
	case "sphere", "torus":
		return s.A
	}
	return s.A.Mid(s.B)
}

// Ref is the result of a reference distance query.
type Ref struct {
	SDF     float64 // positive inside
	Nearest kit.V3  // a nearest boundary point
	Normal  kit.V3  // unit outward normal at Nearest (meaningful when Smooth)
	Smooth  bool    // nearest point is unique by Margin and interior to a smooth piece
	Margin  float64 // how much farther the second-best piece / the piece end is
}

// profile piece in the (rho, t) half plane; the outward normal is to the right of a->b.
type ppiece struct{ a, b kit.V2 }

func profileRef(pieces []ppiece, q kit.V2) (dist float64, near kit.V2, normal kit.V2, smooth bool, margin float64) {
	best, second := math.Inf(1), math.Inf(1)
	var bi int
	for i, pc := range pieces {
		d, c := kit.PointSegDist2(q, pc.a, pc.b)
		if d < best {
			second = best
			best, bi, near = d, i, c
		} else if d < second {
			second = d
		}
	}
	pc := pieces[bi]
	l := pc.a.Dist(pc.b)
	dir := pc.b.Sub(pc.a).Scale(1 / l)
	normal = kit.V2{dir[1], -dir[0]}
	tt := near.Sub(pc.a).Dot(dir)
	flat := pc.a[1] == pc.b[1] // perpendicular to the axis: its end on the axis is not a corner
	ma, mb := tt, l-tt
	if flat && pc.a[0] == 0 {
		ma = math.Inf(1)
	}
	if flat && pc.b[0] == 0 {
		mb = math.Inf(1)
	}
	margin = math.Min(second-best, math.Min(ma, mb))
	smooth = margin > 0
	return best, near, normal, smooth, margin
}

// orthonormal frame helper: returns t (axial coordinate), rho and unit radial direction
func axial(p, origin, u kit.V3) (t, rho float64, e kit.V3) {
	d := p.Sub(origin)
	t = d.Dot(u)
	r := d.Sub(u.Scale(t))
	rho = r.Norm()
	if rho > 0 {
		e = r.Scale(1 / rho)
	}
	return
}

// RefSDF evaluates the independent closed-form signed distance (positive inside).
func (s Shape3) RefSDF(p kit.V3) Ref {
	switch s.Kind {
	case "sphere":
		d := p.Sub(s.A)
		l := d.Norm()
		r := Ref{SDF: s.R - l, Margin: l, Smooth: l > 1e-9*s.R}
		if l > 0 {
			r.Normal = d.Scale(1 / l)
			r.Nearest = s.A.Add(r.Normal.Scale(s.R))
		}
		return r
	case "rect":
		return rectRef(s.A, s.B, p)
	case "capsule":
		d, c := kit.PointSegDist3(p, s.A, s.B)
		r := Ref{SDF: s.R - d, Margin: d, Smooth: d > 1e-9*s.R}
		if d > 0 {
			r.Normal = p.Sub(c).Scale(1 / d)
			r.Nearest = c.Add(r.Normal.Scale(s.R))
		}
		// inside the shaft but on the axis, or the cap/shaft junction: still smooth (C1 surface)
		return r
	case "cylinder":
		h := s.A.Dist(s.B)
		u := s.B.Sub(s.A).Scale(1 / h)
		t, rho, e := axial(p, s.A, u)
		pieces := []ppiece{
			{kit.V2{0, 0}, kit.V2{s.R, 0}}, // bottom cap, outward = -t
			{kit.V2{s.R, 0}, kit.V2{s.R, h}},
			{kit.V2{s.R, h}, kit.V2{0, h}},
		}
		inside := t >= 0 && t <= h && rho <= s.R
		return liftProfile(pieces, inside, kit.V2{rho, t}, s.A, u, e, rho)
	case "cone":
		// A = tip, B = base centre
		h := s.A.Dist(s.B)
		u := s.A.Sub(s.B).Scale(1 / h)
		t, rho, e := axial(p, s.B, u)
		pieces := []ppiece{
			{kit.V2{0, 0}, kit.V2{s.R, 0}}, // base disc, outward = -t
			{kit.V2{s.R, 0}, kit.V2{0, h}}, // slanted side
		}
		inside := t >= 0 && rho/s.R+t/h <= 1
		return liftProfile(pieces, inside, kit.V2{rho, t}, s.B, u, e, rho)
	case "torus":
		u := s.B.Unit()
		t, rho, e := axial(p, s.A, u)
		dr, dt := rho-s.R, t
		l := math.Hypot(dr, dt)
		r := Ref{SDF: s.R2 - l}
		// degenerate: on the axis (rho=0) the nearest point is a whole circle; on the core circle l=0
		r.Margin = math.Min(l, rho)
		r.Smooth = l > 1e-9*s.R2 && rho > 1e-9*s.R
		if r.Smooth {
			n := e.Scale(dr / l).Add(u.Scale(dt / l))
			r.Normal = n
			r.Nearest = s.A.Add(e.Scale(s.R)).Add(n.Scale(s.R2))
		}
		return r
	}
	panic("gen: unknown shape kind " + s.Kind)
}

func liftProfile(pieces []ppiece, inside bool, q kit.V2, origin, u, e kit.V3, rho float64) Ref {
	d, near, n2, smooth, margin := profileRef(pieces, q)
	r := Ref{SDF: -d, Margin: margin}
	if inside {
		r.SDF = d
	}
	if scale := math.Abs(near[0]) + math.Abs(near[1]) + math.Abs(q[1]); rho <= 1e-9*scale {
		// on (or within rounding of) the axis: the radial direction is arbitrary; only flat caps (normal along
		// the axis) stay well defined
		if math.Abs(n2[0]) > 1e-12 {
			smooth = false
			margin = 0
		}
		if rho == 0 {
			a, _ := orthoBasis(u)
			e = a
		}
	}
	if math.Abs(n2[0]) > 1e-12 && rho < margin {
		// a piece with a radial normal has a kink on the axis itself
		margin = rho
	}
	r.Smooth = smooth
	r.Margin = margin
	r.Nearest = origin.Add(e.Scale(near[0])).Add(u.Scale(near[1]))
	r.Normal = e.Scale(n2[0]).Add(u.Scale(n2[1]))
	return r
}

func orthoBasis(u kit.V3) (kit.V3, kit.V3) {
	a := kit.V3{1, 0, 0}
	if math.Abs(u[0]) > 0.7 {
		a = kit.V3{0, 1, 0}
	}
	a = a.Sub(u.Scale(a.Dot(u))).Unit()
	return a, u.Cross(a)
}

func rectRef(min, max, p kit.V3) Ref {
	// outside distance by per-axis clamping; inside distance = nearest face
	var q kit.V3
	outside := false
	for i := 0; i < 3; i++ {
		q[i] = math.Max(min[i], math.Min(max[i], p[i]))
		if q[i] != p[i] {
			outside = true
		}
	}
	if outside {
		d := p.Dist(q)
		r := Ref{SDF: -d, Nearest: q}
		// smooth iff exactly one axis is clamped
		n, ax := 0, 0
		second := math.Inf(1)
		for i := 0; i < 3; i++ {
			if q[i] != p[i] {
				n++
				ax = i
			} else {
				second = math.Min(second, math.Min(p[i]-min[i], max[i]-p[i]))
			}
		}
		if n == 1 {
			r.Smooth = second > 0
			r.Margin = second
			if p[ax] > max[ax] {
				r.Normal[ax] = 1
			} else {
				r.Normal[ax] = -1
			}
		}
		return r
	}
	best, second := math.Inf(1), math.Inf(1)
	var bn kit.V3
	var bq kit.V3
	for i := 0; i < 3; i++ {
		for _, side := range []int{-1, 1} {
			var d float64
			if side < 0 {
				d = p[i] - min[i]
			} else {
				d = max[i] - p[i]
			}
			if d < best {
				second = best
				best = d
				bn = kit.V3{}
				bn[i] = float64(side)
				bq = p
				if side < 0 {
					bq[i] = min[i]
				} else {
					bq[i] = max[i]
				}
			} else if d < second {
				second = d
			}
		}
	}
	return Ref{SDF: best, Nearest: bq, Normal: bn, Smooth: second-best > 0, Margin: second - best}
}

// AxisDistance returns the distance of p from the shape's axis of symmetry and the distance of p from the
// point the library measures the axial offset from (cone/cylinder/capsule/torus); ok=false for shapes without one.
func (s Shape3) AxisDistance(p kit.V3) (rho, span float64, ok bool) {
	switch s.Kind {
	case "cylinder", "capsule":
		u := s.B.Sub(s.A).Unit()
		_, rho, _ = axial(p, s.A, u)
		return rho, p.Dist(s.A), true
	case "cone":
		u := s.A.Sub(s.B).Unit()
		_, rho, _ = axial(p, s.B, u)
		return rho, p.Dist(s.B), true
	case "torus":
		_, rho, _ = axial(p, s.A, s.B.Unit())
		return rho, p.Dist(s.A), true
	}
	return 0, 0, false
}

// RefContains is the analytic membership (closed set).
func (s Shape3) RefContains(p kit.V3) bool { return s.RefSDF(p).SDF >= 0 }

// ---------------------------------------------------------------------------
// generators

// F draws a float uniformly from [lo, hi].
//
// rapid's own numeric generators are NOT used directly: Float64Range and IntRange are heavily biased towards
// tiny magnitudes (about half of the Float64Range draws from [-0.4, 1.4] are non-zero numbers below 1e-6),
// which concentrates "random" points on the origin and the coordinate planes, makes almost every generated
// configuration degenerate, and produces subnormal differences that say nothing about the library.  Instead a
// (biased) 64-bit integer is drawn from rapid and scrambled by a fixed bijective hash, which gives uniform,
// generic values; rapid still owns all randomness, so shrinking and replay work, and shrinking cannot push
// coordinates towards degenerate round numbers.  Special values (0, axis-aligned directions, equal
// coordinates) are generated explicitly by the generators that want them.
func F(t *rapid.T, lo, hi float64, label string) float64 {
	if !(hi > lo) {
		return lo
	}
	return lo + (hi-lo)*U01(t, label)
}

// U01 draws a uniform number in [0, 1) (53 bits).  Two rapid draws and the label are mixed so that the small
// integers rapid likes to repeat (0, 1, 2...) do not make different coordinates equal.
func U01(t *rapid.T, label string) float64 {
	z := rapid.Uint64().Draw(t, label)
	z2 := rapid.Uint64().Draw(t, label+"'")
	h := uint64(14695981039346656037)
	for i := 0; i < len(label); i++ {
		h = (h ^ uint64(label[i])) * 1099511628211
	}
	z = z + 0x9e3779b97f4a7c15 + (z2<<32 | z2>>32)*0xd6e8feb86659fd93 + h
	z = (z ^ (z >> 30)) * 0xbf58476d1ce4e5b9
	z = (z ^ (z >> 27)) * 0x94d049bb133111eb
	z ^= z >> 31
	return float64(z>>11) / (1 << 53)
}

// Int draws an integer uniformly from [lo, hi] (rapid.IntRange prefers small magnitudes).
func Int(t *rapid.T, lo, hi int, label string) int {
	return lo + int(U01(t, label)*float64(hi-lo+1))
}

// LogF draws a float whose logarithm is uniform in [log lo, log hi].
func LogF(t *rapid.T, lo, hi float64, label string) float64 {
	return math.Exp(F(t, math.Log(lo), math.Log(hi), label))
}

// Vec3 draws a vector with components in [-m, m].
func Vec3(t *rapid.T, m float64, label string) kit.V3 {
	return kit.V3{F(t, -m, m, label+".x"), F(t, -m, m, label+".y"), F(t, -m, m, label+".z")}
}

// Dir3 draws a direction (not normalised, norm in [0.2, ~1.8]); axis-aligned with probability 1/4.
func Dir3(t *rapid.T, label string) kit.V3 {
	k := rapid.IntRange(0, 11).Draw(t, label+".kind")
	if k < 3 {
		var v kit.V3
		v[k] = 1
		if rapid.Bool().Draw(t, label+".neg") {
			v[k] = -1
		}
		return v
	}
	for i := 0; ; i++ {
		v := Vec3(t, 1, label)
		if n := v.Norm(); n > 0.2 || i > 20 {
			if n <= 0.2 {
				return kit.V3{0.3, -0.5, 0.8}
			}
			return v
		}
	}
}

// Shape3Gen draws a primitive with centre within [-1,1]^3 and size about `size`;
// aspect controls the ratio range between radius and length (1 = mild, up to 1e3).
func Shape3Gen(t *rapid.T, kinds []string, size, aspect float64, label string) Shape3 {
	kind := rapid.SampledFrom(kinds).Draw(t, label+".kind")
	c := Vec3(t, 1, label+".c")
	r := size * LogF(t, 0.3, 1, label+".r")
	asp := LogF(t, 1/aspect, aspect, label+".aspect")
	switch kind {
	case "sphere":
		return Shape3{Kind: kind, A: c, R: r}
	case "rect":
		h := kit.V3{r * LogF(t, 1/aspect, 1, label+".hx"), r * LogF(t, 1/aspect, 1, label+".hy"), r * LogF(t, 1/aspect, 1, label+".hz")}
		return Shape3{Kind: kind, A: c.Sub(h), B: c.Add(h)}
	case "capsule", "cylinder", "cone":
		d := Dir3(t, label+".axis").Unit()
		// length = r*asp (asp>1: long thin; asp<1: flat disc), keep the larger of the two near `size`
		length, rad := r, r
		if asp > 1 {
			rad = r / asp
		} else {
			length = r * asp
		}
		half := d.Scale(length / 2)
		return Shape3{Kind: kind, A: c.Add(half), B: c.Sub(half), R: rad}
	case "torus":
		d := Dir3(t, label+".axis")
		inner := r * LogF(t, math.Max(1/aspect, 1e-3), 0.95, label+".inner")
		return Shape3{Kind: kind, A: c, B: d, R: r, R2: inner}
	}
	panic("gen: unknown kind " + kind)
}

// AllKinds3 lists every primitive kind.
var AllKinds3 = []string{"sphere", "rect", "capsule", "cylinder", "cone", "torus"}

// Scaled returns the same shape in other units: every position and length multiplied by k > 0 (the torus axis B is a
// direction and stays).  Distances scale by k, membership and normals do not change.
func (s Shape3) Scaled(k float64) Shape3 {
	out := s
	out.A = s.A.Scale(k)
	if s.Kind != "torus" {
		out.B = s.B.Scale(k)
	}
	out.R, out.R2 = s.R*k, s.R2*k
	return out
}

// UnitGen draws a unit for Scaled: mostly 1, sometimes anything between a nanometre and a gigametre per unit.
func UnitGen(t *rapid.T, label string) float64 {
	if rapid.IntRange(0, 7).Draw(t, label+".extreme") == 0 {
		return LogF(t, 1e-9, 1e9, label+".unit")
	}
	return 1
}
