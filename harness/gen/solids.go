package gen

import (
	"math"
	"sync"

	"github.com/unixpickle/model3d/model2d"
	"github.com/unixpickle/model3d/model3d"
	"pgregory.net/rapid"
	"verifharness/kit"
)

// ---------------------------------------------------------------------------
// Lattice solids: Contains(p) = bit at round(p), zero outside [0,N)^3.  With
// delta = 1 the meshers' lattice is exactly the integer lattice from -1 to N.

type Lattice3 struct {
	N    [3]int `json:"n"`
	Bits string `json:"bits"` // N[0]*N[1]*N[2] characters '0'/'1', x fastest
}

func (l Lattice3) At(x, y, z int) bool {
	if x < 0 || y < 0 || z < 0 || x >= l.N[0] || y >= l.N[1] || z >= l.N[2] {
		return false
	}
	return l.Bits[x+l.N[0]*(y+l.N[1]*z)] == '1'
}

func (l Lattice3) Count() int {
	n := 0
	for _, c := range l.Bits {
		if c == '1' {
			n++
		}
	}
	return n
}

type latticeSolid3 struct{ l Lattice3 }

func (s latticeSolid3) Min() model3d.Coord3D { return model3d.XYZ(0, 0, 0) }
func (s latticeSolid3) Max() model3d.Coord3D {
	return model3d.XYZ(float64(s.l.N[0]-1), float64(s.l.N[1]-1), float64(s.l.N[2]-1))
}
func (s latticeSolid3) Contains(c model3d.Coord3D) bool {
	return s.l.At(int(math.Floor(c.X+0.5)), int(math.Floor(c.Y+0.5)), int(math.Floor(c.Z+0.5)))
}

// Solid returns the library-facing solid.
func (l Lattice3) Solid() model3d.Solid { return latticeSolid3{l} }

// LatticeFromUint builds an nx*ny*nz lattice from the low bits of v.
func LatticeFromUint(nx, ny, nz int, v uint64) Lattice3 {
	b := make([]byte, nx*ny*nz)
	for i := range b {
		b[i] = '0' + byte(v>>uint(i)&1)
	}
	return Lattice3{N: [3]int{nx, ny, nz}, Bits: string(b)}
}

// Lattice3Gen draws a random lattice up to max^3 with a random density.
func Lattice3Gen(t *rapid.T, max int, label string) Lattice3 {
	n := [3]int{rapid.IntRange(1, max).Draw(t, label+".nx"), rapid.IntRange(1, max).Draw(t, label+".ny"), rapid.IntRange(1, max).Draw(t, label+".nz")}
	dens := rapid.IntRange(1, 9).Draw(t, label+".density")
	b := make([]byte, n[0]*n[1]*n[2])
	for i := range b {
		if rapid.IntRange(0, 9).Draw(t, "bit") < dens {
			b[i] = '1'
		} else {
			b[i] = '0'
		}
	}
	return Lattice3{N: n, Bits: string(b)}
}

// HasAmbiguity reports whether some lattice cell (including the empty border) has a
// face whose diagonal corners agree while the other diagonal disagrees, or a cell
// with 6 or 7 set corners.
func (l Lattice3) HasAmbiguity() bool {
	for z := -1; z < l.N[2]; z++ {
		for y := -1; y < l.N[1]; y++ {
			for x := -1; x < l.N[0]; x++ {
				var c [8]bool
				n := 0
				for i := 0; i < 8; i++ {
					c[i] = l.At(x+i&1, y+(i>>1)&1, z+(i>>2)&1)
					if c[i] {
						n++
					}
				}
				if n >= 6 && n < 8 {
					return true
				}
				faces := [6][4]int{{0, 1, 3, 2}, {4, 5, 7, 6}, {0, 1, 5, 4}, {2, 3, 7, 6}, {0, 2, 6, 4}, {1, 3, 7, 5}}
				for _, f := range faces {
					if c[f[0]] == c[f[2]] && c[f[1]] == c[f[3]] && c[f[0]] != c[f[1]] {
						return true
					}
				}
			}
		}
	}
	return false
}

// ---- 2D

type Lattice2 struct {
	N    [2]int `json:"n"`
	Bits string `json:"bits"`
}

func (l Lattice2) At(x, y int) bool {
	if x < 0 || y < 0 || x >= l.N[0] || y >= l.N[1] {
		return false
	}
	return l.Bits[x+l.N[0]*y] == '1'
}

type latticeSolid2 struct{ l Lattice2 }

func (s latticeSolid2) Min() model2d.Coord { return model2d.XY(0, 0) }
func (s latticeSolid2) Max() model2d.Coord {
	return model2d.XY(float64(s.l.N[0]-1), float64(s.l.N[1]-1))
}
func (s latticeSolid2) Contains(c model2d.Coord) bool {
	return s.l.At(int(math.Floor(c.X+0.5)), int(math.Floor(c.Y+0.5)))
}

func (l Lattice2) Solid() model2d.Solid { return latticeSolid2{l} }

func Lattice2FromUint(nx, ny int, v uint64) Lattice2 {
	b := make([]byte, nx*ny)
	for i := range b {
		b[i] = '0' + byte(v>>uint(i)&1)
	}
	return Lattice2{N: [2]int{nx, ny}, Bits: string(b)}
}

func Lattice2Gen(t *rapid.T, max int, label string) Lattice2 {
	n := [2]int{rapid.IntRange(1, max).Draw(t, label+".nx"), rapid.IntRange(1, max).Draw(t, label+".ny")}
	dens := rapid.IntRange(1, 9).Draw(t, label+".density")
	b := make([]byte, n[0]*n[1])
	for i := range b {
		if rapid.IntRange(0, 9).Draw(t, "bit") < dens {
			b[i] = '1'
		} else {
			b[i] = '0'
		}
	}
	return Lattice2{N: n, Bits: string(b)}
}

// HasDiagonal reports whether some 2x2 block (including the border) is a checkerboard.
func (l Lattice2) HasDiagonal() bool {
	for y := -1; y < l.N[1]; y++ {
		for x := -1; x < l.N[0]; x++ {
			a, b, c, d := l.At(x, y), l.At(x+1, y), l.At(x, y+1), l.At(x+1, y+1)
			if a == d && b == c && a != b {
				return true
			}
		}
	}
	return false
}

// ---------------------------------------------------------------------------
// CSG trees over primitives.

// Node is a JSON-serialisable solid expression.
//
//	prim:      Shape
//	join/intersect: Kids (>=1)
//	subtract:  Kids[0] - Kids[1]
//	xform:     Kids[0] under T
type Node struct {
	Op    string  `json:"op"`
	Shape *Shape3 `json:"shape,omitempty"`
	Kids  []*Node `json:"kids,omitempty"`
	T     *Xform3 `json:"t,omitempty"`
}

// Build constructs the library solid.
func (n *Node) Build() model3d.Solid {
	switch n.Op {
	case "prim":
		return n.Shape.Build()
	case "join":
		var js model3d.JoinedSolid
		for _, k := range n.Kids {
			js = append(js, k.Build())
		}
		return js
	case "intersect":
		var is model3d.IntersectedSolid
		for _, k := range n.Kids {
			is = append(is, k.Build())
		}
		return is
	case "subtract":
		return &model3d.SubtractedSolid{Positive: n.Kids[0].Build(), Negative: n.Kids[1].Build()}
	case "xform":
		return model3d.TransformSolid(n.T.Build(), n.Kids[0].Build())
	}
	panic("gen: unknown node op " + n.Op)
}

// RefContains evaluates membership from the tree's definition with the analytic
// primitives.  margin>0 asks for "inside by margin" / "outside by margin" semantics:
// the second result is false when the point is within margin (in SDF terms of some
// primitive on the path) of a decision boundary, in which case the answer is not
// trusted.
func (n *Node) RefContains(p kit.V3, margin float64) (in bool, sure bool) {
	switch n.Op {
	case "prim":
		d := n.Shape.RefSDF(p).SDF
		return d >= 0, math.Abs(d) > margin
	case "join":
		in, sure = false, true
		for _, k := range n.Kids {
			i, s := k.RefContains(p, margin)
			in = in || i
			sure = sure && s
		}
		return
	case "intersect":
		in, sure = true, true
		for _, k := range n.Kids {
			i, s := k.RefContains(p, margin)
			in = in && i
			sure = sure && s
		}
		return
	case "subtract":
		i0, s0 := n.Kids[0].RefContains(p, margin)
		i1, s1 := n.Kids[1].RefContains(p, margin)
		return i0 && !i1, s0 && s1
	case "xform":
		q := n.T.RefInverse(p)
		// margin is scaled conservatively by the transform's expansion
		return n.Kids[0].RefContains(q, margin*n.T.MaxStretch())
	}
	panic("gen: unknown node op " + n.Op)
}

// Depth of the tree.
func (n *Node) Depth() int {
	d := 0
	for _, k := range n.Kids {
		if kd := k.Depth(); kd > d {
			d = kd
		}
	}
	return d + 1
}

// NodeGen draws a CSG tree of at most the given depth; primitives sit within
// roughly [-1.6, 1.6]^3.
func NodeGen(t *rapid.T, depth int, aspect float64, withXform bool, label string) *Node {
	if depth <= 1 || rapid.IntRange(0, 3).Draw(t, label+".leaf") == 0 {
		s := Shape3Gen(t, AllKinds3, 0.8, aspect, label+".prim")
		return &Node{Op: "prim", Shape: &s}
	}
	ops := []string{"join", "join", "intersect", "subtract"}
	if withXform {
		ops = append(ops, "xform")
	}
	op := rapid.SampledFrom(ops).Draw(t, label+".op")
	switch op {
	case "join", "intersect":
		k := rapid.IntRange(1, 3).Draw(t, label+".n")
		n := &Node{Op: op}
		for i := 0; i < k; i++ {
			n.Kids = append(n.Kids, NodeGen(t, depth-1, aspect, withXform, label+".k"))
		}
		return n
	case "subtract":
		return &Node{Op: op, Kids: []*Node{NodeGen(t, depth-1, aspect, withXform, label+".pos"), NodeGen(t, depth-1, aspect, withXform, label+".neg")}}
	default:
		x := Xform3Gen(t, false, label+".t")
		return &Node{Op: "xform", T: &x, Kids: []*Node{NodeGen(t, depth-1, aspect, withXform, label+".k")}}
	}
}

// Recorder3 wraps a solid and records every queried point (safe for concurrent use).
type Recorder3 struct {
	model3d.Solid
	mu     sync.Mutex
	Points map[kit.V3]bool
}

func NewRecorder3(s model3d.Solid) *Recorder3 {
	return &Recorder3{Solid: s, Points: map[kit.V3]bool{}}
}

func (r *Recorder3) Contains(c model3d.Coord3D) bool {
	b := r.Solid.Contains(c)
	r.mu.Lock()
	r.Points[kit.V3{c.X, c.Y, c.Z}] = b
	r.mu.Unlock()
	return b
}

// Recorder2 is the 2D analogue.
type Recorder2 struct {
	model2d.Solid
	mu     sync.Mutex
	Points map[kit.V2]bool
}

func NewRecorder2(s model2d.Solid) *Recorder2 {
	return &Recorder2{Solid: s, Points: map[kit.V2]bool{}}
}

func (r *Recorder2) Contains(c model2d.Coord) bool {
	b := r.Solid.Contains(c)
	r.mu.Lock()
	r.Points[kit.V2{c.X, c.Y}] = b
	r.mu.Unlock()
	return b
}
