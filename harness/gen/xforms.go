package gen

import (
	"math"

	"github.com/unixpickle/model3d/model3d"
	"pgregory.net/rapid"
	"verifharness/kit"
)

// Xform3 is a JSON-serialisable affine transform description.
//
//	translate: V=offset
//	scale:     S (>0)
//	vecscale:  V (non-zero components, any signs)
//	matrix:    M (row-major 3x3, well conditioned)
//	rotation:  V=axis (unit), S=angle
//	joined:    Parts, applied left to right
type Xform3 struct {
	Kind  string     `json:"kind"`
	V     kit.V3     `json:"v,omitempty"`
	S     float64    `json:"s,omitempty"`
	M     [9]float64 `json:"m,omitempty"`
	Parts []Xform3   `json:"parts,omitempty"`
}

// Build constructs the library transform.
func (x Xform3) Build() model3d.Transform {
	switch x.Kind {
	case "translate":
		return &model3d.Translate{Offset: c3(x.V)}
	case "scale":
		return &model3d.Scale{Scale: x.S}
	case "vecscale":
		return &model3d.VecScale{Scale: c3(x.V)}
	case "matrix":
		// the library stores matrices row by row (MulColumn: X = m[0]*x + m[1]*y + m[2]*z)
		m := model3d.Matrix3(x.M)
		return &model3d.Matrix3Transform{Matrix: &m}
	case "rotation":
		return model3d.Rotation(c3(x.V), x.S)
	case "joined":
		var j model3d.JoinedTransform
		for _, p := range x.Parts {
			j = append(j, p.Build())
		}
		return j
	}
	panic("gen: unknown transform kind " + x.Kind)
}

// IsDist reports whether the transform changes all distances by one factor.
func (x Xform3) IsDist() bool {
	switch x.Kind {
	case "translate", "scale", "rotation":
		return true
	case "joined":
		for _, p := range x.Parts {
			if !p.IsDist() {
				return false
			}
		}
		return true
	}
	return false
}

// DistFactor is the reference distance factor of a distance transform.
func (x Xform3) DistFactor() float64 {
	switch x.Kind {
	case "scale":
		return x.S
	case "joined":
		f := 1.0
		for _, p := range x.Parts {
			f *= p.DistFactor()
		}
		return f
	}
	return 1
}

// affine returns the reference linear part (row-major) and offset: p -> L p + o.
func (x Xform3) affine() (l [9]float64, o kit.V3) {
	id := [9]float64{1, 0, 0, 0, 1, 0, 0, 0, 1}
	switch x.Kind {
	case "translate":
		return id, x.V
	case "scale":
		return [9]float64{x.S, 0, 0, 0, x.S, 0, 0, 0, x.S}, kit.V3{}
	case "vecscale":
		return [9]float64{x.V[0], 0, 0, 0, x.V[1], 0, 0, 0, x.V[2]}, kit.V3{}
	case "matrix":
		return x.M, kit.V3{}
	case "rotation":
		// Rodrigues
		k := x.V.Unit()
		c, s := math.Cos(x.S), math.Sin(x.S)
		t := 1 - c
		return [9]float64{
			c + k[0]*k[0]*t, k[0]*k[1]*t - k[2]*s, k[0]*k[2]*t + k[1]*s,
			k[1]*k[0]*t + k[2]*s, c + k[1]*k[1]*t, k[1]*k[2]*t - k[0]*s,
			k[2]*k[0]*t - k[1]*s, k[2]*k[1]*t + k[0]*s, c + k[2]*k[2]*t,
		}, kit.V3{}
	case "joined":
		l, o = id, kit.V3{}
		for _, p := range x.Parts {
			pl, po := p.affine()
			l = mul33(pl, l)
			o = mulv(pl, o).Add(po)
		}
		return
	}
	panic("gen: unknown transform kind " + x.Kind)
}

func mul33(a, b [9]float64) (c [9]float64) {
	for i := 0; i < 3; i++ {
		for j := 0; j < 3; j++ {
			for k := 0; k < 3; k++ {
				c[3*i+j] += a[3*i+k] * b[3*k+j]
			}
		}
	}
	return
}

func mulv(a [9]float64, v kit.V3) kit.V3 {
	return kit.V3{a[0]*v[0] + a[1]*v[1] + a[2]*v[2], a[3]*v[0] + a[4]*v[1] + a[5]*v[2], a[6]*v[0] + a[7]*v[1] + a[8]*v[2]}
}

func inv33(m [9]float64) [9]float64 {
	a, b, c, d, e, f, g, h, i := m[0], m[1], m[2], m[3], m[4], m[5], m[6], m[7], m[8]
	det := a*(e*i-f*h) - b*(d*i-f*g) + c*(d*h-e*g)
	return [9]float64{
		(e*i - f*h) / det, (c*h - b*i) / det, (b*f - c*e) / det,
		(f*g - d*i) / det, (a*i - c*g) / det, (c*d - a*f) / det,
		(d*h - e*g) / det, (b*g - a*h) / det, (a*e - b*d) / det,
	}
}

// RefApply maps a point with the reference arithmetic.
func (x Xform3) RefApply(p kit.V3) kit.V3 {
	l, o := x.affine()
	return mulv(l, p).Add(o)
}

// RefApplyDir maps a direction (linear part only).
func (x Xform3) RefApplyDir(d kit.V3) kit.V3 {
	l, _ := x.affine()
	return mulv(l, d)
}

// RefInverse maps a point back with the reference arithmetic.
func (x Xform3) RefInverse(p kit.V3) kit.V3 {
	l, o := x.affine()
	return mulv(inv33(l), p.Sub(o))
}

// RefNormal maps a surface normal (inverse transpose), normalised.
func (x Xform3) RefNormal(n kit.V3) kit.V3 {
	l, _ := x.affine()
	li := inv33(l)
	t := [9]float64{li[0], li[3], li[6], li[1], li[4], li[7], li[2], li[5], li[8]}
	return mulv(t, n).Unit()
}

// MaxStretch bounds how much the inverse can stretch a distance (largest row norm sum
// bound of the inverse linear part; conservative).
func (x Xform3) MaxStretch() float64 {
	l, _ := x.affine()
	li := inv33(l)
	s := 0.0
	for _, v := range li {
		s += v * v
	}
	return math.Sqrt(s)
}

// Det of the linear part.
func (x Xform3) Det() float64 {
	m, _ := x.affine()
	a, b, c, d, e, f, g, h, i := m[0], m[1], m[2], m[3], m[4], m[5], m[6], m[7], m[8]
	return a*(e*i-f*h) - b*(d*i-f*g) + c*(d*h-e*g)
}

var xformKindsAll = []string{"translate", "scale", "vecscale", "matrix", "rotation", "joined"}
var xformKindsDist = []string{"translate", "scale", "rotation", "joined"}

// Xform3Gen draws a transform; distOnly restricts to distance transforms.
func Xform3Gen(t *rapid.T, distOnly bool, label string) Xform3 {
	return xform3Gen(t, distOnly, 2, label)
}

func xform3Gen(t *rapid.T, distOnly bool, depth int, label string) Xform3 {
	kinds := xformKindsAll
	if distOnly {
		kinds = xformKindsDist
	}
	if depth == 0 {
		kinds = kinds[:len(kinds)-1]
	}
	kind := rapid.SampledFrom(kinds).Draw(t, label+".kind")
	switch kind {
	case "translate":
		return Xform3{Kind: kind, V: Vec3(t, 2, label+".off")}
	case "scale":
		return Xform3{Kind: kind, S: LogF(t, 0.2, 5, label+".s")}
	case "vecscale":
		v := kit.V3{LogF(t, 0.2, 5, label+".sx"), LogF(t, 0.2, 5, label+".sy"), LogF(t, 0.2, 5, label+".sz")}
		for i := range v {
			if rapid.IntRange(0, 3).Draw(t, label+".neg") == 0 {
				v[i] = -v[i]
			}
		}
		return Xform3{Kind: kind, V: v}
	case "matrix":
		// rotation * diag * rotation keeps the condition number bounded by the diag ratio
		r1 := Xform3{Kind: "rotation", V: Dir3(t, label+".ax1").Unit(), S: F(t, -3.2, 3.2, label+".a1")}
		r2 := Xform3{Kind: "rotation", V: Dir3(t, label+".ax2").Unit(), S: F(t, -3.2, 3.2, label+".a2")}
		d := [9]float64{LogF(t, 0.3, 3, label+".d0"), 0, 0, 0, LogF(t, 0.3, 3, label+".d1"), 0, 0, 0, LogF(t, 0.3, 3, label+".d2")}
		if rapid.Bool().Draw(t, label+".reflect") {
			d[0] = -d[0]
		}
		l1, _ := r1.affine()
		l2, _ := r2.affine()
		return Xform3{Kind: kind, M: mul33(l2, mul33(d, l1))}
	case "rotation":
		return Xform3{Kind: kind, V: Dir3(t, label+".axis").Unit(), S: F(t, -7, 7, label+".angle")}
	default:
		n := rapid.IntRange(1, 4).Draw(t, label+".n")
		x := Xform3{Kind: "joined"}
		for i := 0; i < n; i++ {
			x.Parts = append(x.Parts, xform3Gen(t, distOnly, depth-1, label+".part"))
		}
		return x
	}
}

// Kinds returns the set of primitive transform kinds used (for classification).
func (x Xform3) Kinds() map[string]bool {
	m := map[string]bool{}
	var walk func(x Xform3)
	walk = func(x Xform3) {
		if x.Kind == "joined" {
			for _, p := range x.Parts {
				walk(p)
			}
			return
		}
		m[x.Kind] = true
	}
	walk(x)
	return m
}

// LatticeCells estimates how many lattice cells a mesher visits for the image of the box [min, max] under x at
// spacing delta (axis-aligned box of the eight corner images, two extra cells per axis).  Generated cases whose
// lattice would be enormous are a cost problem of the case, not a property of the library: checks skip them.
func LatticeCells(x Xform3, min, max kit.V3, delta float64) float64 {
	lo := kit.V3{math.Inf(1), math.Inf(1), math.Inf(1)}
	hi := kit.V3{math.Inf(-1), math.Inf(-1), math.Inf(-1)}
	for i := 0; i < 8; i++ {
		p := kit.V3{min[0], min[1], min[2]}
		if i&1 != 0 {
			p[0] = max[0]
		}
		if i&2 != 0 {
			p[1] = max[1]
		}
		if i&4 != 0 {
			p[2] = max[2]
		}
		q := x.RefApply(p)
		for k := 0; k < 3; k++ {
			lo[k] = math.Min(lo[k], q[k])
			hi[k] = math.Max(hi[k], q[k])
		}
	}
	cells := 1.0
	for k := 0; k < 3; k++ {
		cells *= (hi[k]-lo[k])/delta + 3
	}
	return cells
}
