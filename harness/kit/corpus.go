package kit

import (
	"fmt"
	"os"
	"strconv"
	"strings"
)

// ReadFuzzCorpusBytes parses a file of Go's native fuzzing corpus format ("go test fuzz v1") whose single value is a
// []byte and returns the bytes.  Used to turn the input that go test saved after a fuzz worker DIED (fatal error, out
// of memory, hang: no chance for the target to write its own failure record) into a replay record.
func ReadFuzzCorpusBytes(path string) ([]byte, error) {
	raw, err := os.ReadFile(path)
	if err != nil {
		return nil, err
	}
	lines := strings.Split(strings.TrimSpace(string(raw)), "\n")
	if len(lines) < 2 || !strings.HasPrefix(lines[0], "go test fuzz v1") {
		return nil, fmt.Errorf("%s: not a go fuzz corpus file", path)
	}
	v := strings.TrimSpace(lines[1])
	if !strings.HasPrefix(v, "[]byte(") || !strings.HasSuffix(v, ")") {
		return nil, fmt.Errorf("%s: value is not a []byte: %.40s", path, v)
	}
	s, err := strconv.Unquote(v[len("[]byte(") : len(v)-1])
	if err != nil {
		return nil, fmt.Errorf("%s: %v", path, err)
	}
	return []byte(s), nil
}
