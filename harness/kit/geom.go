package kit

import (
	"fmt"
	"math"
	"sort"
)

// Independent geometry toolkit.  Nothing here calls the library under test.

type V3 [3]float64
type V2 [2]float64
type Tri [3]V3
type Seg [2]V2

func (a V3) Add(b V3) V3         { return V3{a[0] + b[0], a[1] + b[1], a[2] + b[2]} }
func (a V3) Sub(b V3) V3         { return V3{a[0] - b[0], a[1] - b[1], a[2] - b[2]} }
func (a V3) Scale(s float64) V3  { return V3{a[0] * s, a[1] * s, a[2] * s} }
func (a V3) Dot(b V3) float64    { return a[0]*b[0] + a[1]*b[1] + a[2]*b[2] }
func (a V3) Norm() float64       { return math.Sqrt(a.Dot(a)) }
func (a V3) Dist(b V3) float64   { return a.Sub(b).Norm() }
func (a V3) Unit() V3            { return a.Scale(1 / a.Norm()) }
func (a V3) Mid(b V3) V3         { return a.Add(b).Scale(0.5) }
func (a V3) Lerp(b V3, t float64) V3 { return a.Scale(1 - t).Add(b.Scale(t)) }
func (a V3) Cross(b V3) V3 {
	return V3{a[1]*b[2] - a[2]*b[1], a[2]*b[0] - a[0]*b[2], a[0]*b[1] - a[1]*b[0]}
}
func (a V3) Finite() bool {
	for _, x := range a {
		if math.IsNaN(x) || math.IsInf(x, 0) {
			return false
		}
	}
	return true
}
func (a V3) MaxAbs() float64 {
	return math.Max(math.Abs(a[0]), math.Max(math.Abs(a[1]), math.Abs(a[2])))
}

func (a V2) Add(b V2) V2        { return V2{a[0] + b[0], a[1] + b[1]} }
func (a V2) Sub(b V2) V2        { return V2{a[0] - b[0], a[1] - b[1]} }
func (a V2) Scale(s float64) V2 { return V2{a[0] * s, a[1] * s} }
func (a V2) Dot(b V2) float64   { return a[0]*b[0] + a[1]*b[1] }
func (a V2) Cross(b V2) float64 { return a[0]*b[1] - a[1]*b[0] }
func (a V2) Norm() float64      { return math.Hypot(a[0], a[1]) }
func (a V2) Dist(b V2) float64  { return a.Sub(b).Norm() }
func (a V2) Unit() V2           { return a.Scale(1 / a.Norm()) }
func (a V2) Mid(b V2) V2        { return a.Add(b).Scale(0.5) }
func (a V2) Finite() bool {
	return !(math.IsNaN(a[0]) || math.IsInf(a[0], 0) || math.IsNaN(a[1]) || math.IsInf(a[1], 0))
}

// Normal is the right-handed (unnormalised) normal of the triangle.
func (t Tri) Normal() V3 { return t[1].Sub(t[0]).Cross(t[2].Sub(t[0])) }

// Area of the triangle.
func (t Tri) Area() float64 { return t.Normal().Norm() / 2 }

// ---------------------------------------------------------------------------
// Topology (3D)

type dedge struct{ a, b V3 }

// TopoReport summarises the combinatorics of a triangle soup under == vertex identity.
type TopoReport struct {
	V, E, F    int
	Components int
	Euler      int
}

// canon maps -0 to +0 so that map keys agree with Go's == on floats.
func canon3(v V3) V3 {
	for i := range v {
		if v[i] == 0 {
			v[i] = 0
		}
	}
	return v
}
func canon2(v V2) V2 {
	for i := range v {
		if v[i] == 0 {
			v[i] = 0
		}
	}
	return v
}

// ClosedOrientedManifold checks that every directed edge occurs exactly once, its
// reverse exactly once, no triangle repeats a vertex, and every vertex has a single
// triangle fan.  It returns nil and a report when all of this holds.
func ClosedOrientedManifold(tris []Tri) (*TopoReport, error) {
	edges := map[dedge]int{}
	vertTris := map[V3][]int{}
	for i, t := range tris {
		for k := 0; k < 3; k++ {
			t[k] = canon3(t[k])
			if !t[k].Finite() {
				return nil, fmt.Errorf("triangle %d has a non-finite vertex %v", i, t[k])
			}
		}
		if t[0] == t[1] || t[1] == t[2] || t[0] == t[2] {
			return nil, fmt.Errorf("triangle %d repeats a vertex: %v", i, t)
		}
		for k := 0; k < 3; k++ {
			e := dedge{t[k], t[(k+1)%3]}
			edges[e]++
			vertTris[t[k]] = append(vertTris[t[k]], i)
		}
		tris[i] = t
	}
	for e, n := range edges {
		if n != 1 {
			return nil, fmt.Errorf("directed edge %v->%v is used by %d triangles (want 1)", e.a, e.b, n)
		}
		if m := edges[dedge{e.b, e.a}]; m != 1 {
			return nil, fmt.Errorf("edge %v->%v has %d opposite traversals (want 1)", e.a, e.b, m)
		}
	}
	// vertex fans: walk around each vertex using the directed edges.
	for v, ts := range vertTris {
		// next triangle around v: triangle (v,a,b) is followed by the triangle containing edge (v,b)->..., i.e. (v,b,c)
		out := map[V3]V3{} // for triangle (v,a,b): a -> b
		for _, ti := range ts {
			t := tris[ti]
			k := 0
			for t[k] != v {
				k++
			}
			out[t[(k+1)%3]] = t[(k+2)%3]
		}
		if len(out) != len(ts) {
			return nil, fmt.Errorf("vertex %v: fan has repeated spokes", v)
		}
		start := tris[ts[0]][0]
		if start == v {
			start = tris[ts[0]][1]
		}
		n := 0
		cur := start
		for {
			nx, ok := out[cur]
			if !ok {
				return nil, fmt.Errorf("vertex %v: fan is open", v)
			}
			n++
			cur = nx
			if cur == start || n > len(ts) {
				break
			}
		}
		if n != len(ts) {
			return nil, fmt.Errorf("vertex %v pinches %d triangles into more than one fan (first fan has %d)", v, len(ts), n)
		}
	}
	rep := &TopoReport{V: len(vertTris), E: len(edges) / 2, F: len(tris)}
	rep.Euler = rep.V - rep.E + rep.F
	rep.Components = components3(tris, vertTris)
	return rep, nil
}

func components3(tris []Tri, vertTris map[V3][]int) int {
	seen := make([]bool, len(tris))
	n := 0
	for i := range tris {
		if seen[i] {
			continue
		}
		n++
		stack := []int{i}
		seen[i] = true
		for len(stack) > 0 {
			j := stack[len(stack)-1]
			stack = stack[:len(stack)-1]
			for _, v := range tris[j] {
				for _, k := range vertTris[canon3(v)] {
					if !seen[k] {
						seen[k] = true
						stack = append(stack, k)
					}
				}
			}
		}
	}
	return n
}

// Topo computes V, E, F, Euler characteristic and components without requiring
// manifoldness.
func Topo(tris []Tri) *TopoReport {
	edges := map[dedge]bool{}
	vertTris := map[V3][]int{}
	for i, t := range tris {
		for k := 0; k < 3; k++ {
			a, b := canon3(t[k]), canon3(t[(k+1)%3])
			if less3(b, a) {
				a, b = b, a
			}
			edges[dedge{a, b}] = true
			vertTris[canon3(t[k])] = append(vertTris[canon3(t[k])], i)
		}
	}
	rep := &TopoReport{V: len(vertTris), E: len(edges), F: len(tris)}
	rep.Euler = rep.V - rep.E + rep.F
	rep.Components = components3(tris, vertTris)
	return rep
}

func less3(a, b V3) bool {
	for i := 0; i < 3; i++ {
		if a[i] != b[i] {
			return a[i] < b[i]
		}
	}
	return false
}

// SignedVolume of a closed oriented triangle mesh (positive for outward normals).
func SignedVolume(tris []Tri) float64 {
	var s float64
	for _, t := range tris {
		s += t[0].Dot(t[1].Cross(t[2]))
	}
	return s / 6
}

// SurfaceArea of a triangle soup.
func SurfaceArea(tris []Tri) float64 {
	var s float64
	for _, t := range tris {
		s += t.Area()
	}
	return s
}

// Winding3 is the generalised winding number of the triangle soup around p
// (1 inside a closed outward-oriented surface, 0 outside).
func Winding3(tris []Tri, p V3) float64 {
	var sum float64
	for _, t := range tris {
		a, b, c := t[0].Sub(p), t[1].Sub(p), t[2].Sub(p)
		la, lb, lc := a.Norm(), b.Norm(), c.Norm()
		num := a.Dot(b.Cross(c))
		den := la*lb*lc + a.Dot(b)*lc + a.Dot(c)*lb + b.Dot(c)*la
		sum += 2 * math.Atan2(num, den)
	}
	return sum / (4 * math.Pi)
}

// ---------------------------------------------------------------------------
// Topology (2D)

// ClosedOrientedManifold2 checks that every vertex has exactly one incoming and one
// outgoing segment and no segment is degenerate.  Returns the number of loops.
func ClosedOrientedManifold2(segs []Seg) (int, error) {
	out := map[V2]V2{}
	in := map[V2]int{}
	for i, s := range segs {
		a, b := canon2(s[0]), canon2(s[1])
		if !a.Finite() || !b.Finite() {
			return 0, fmt.Errorf("segment %d has a non-finite vertex", i)
		}
		if a == b {
			return 0, fmt.Errorf("segment %d is degenerate: %v", i, s)
		}
		if _, ok := out[a]; ok {
			return 0, fmt.Errorf("vertex %v has more than one outgoing segment", a)
		}
		out[a] = b
		in[b]++
		if in[b] > 1 {
			return 0, fmt.Errorf("vertex %v has more than one incoming segment", b)
		}
	}
	for a := range out {
		if in[a] != 1 {
			return 0, fmt.Errorf("vertex %v has an outgoing but %d incoming segments", a, in[a])
		}
	}
	for b := range in {
		if _, ok := out[b]; !ok {
			return 0, fmt.Errorf("vertex %v has an incoming but no outgoing segment", b)
		}
	}
	seen := map[V2]bool{}
	loops := 0
	for a := range out {
		if seen[a] {
			continue
		}
		loops++
		for c := a; !seen[c]; c = out[c] {
			seen[c] = true
		}
	}
	return loops, nil
}

// Winding2 is the winding number of the oriented segments around p, counted
// clockwise-positive (model2d's outward normal is the direction rotated by +90
// degrees, so an outward-oriented outline is traversed clockwise): 1 inside.
func Winding2(segs []Seg, p V2) float64 {
	var sum float64
	for _, s := range segs {
		a, b := s[0].Sub(p), s[1].Sub(p)
		sum += math.Atan2(a.Cross(b), a.Dot(b))
	}
	return -sum / (2 * math.Pi)
}

// SignedArea2 is the shoelace area, positive for clockwise (outward-normal) outlines.
func SignedArea2(segs []Seg) float64 {
	var s float64
	for _, g := range segs {
		s += g[0].Cross(g[1])
	}
	return -s / 2
}

// ---------------------------------------------------------------------------
// Reference distances

// PointSegDist2 returns the distance from p to segment ab and the closest point.
func PointSegDist2(p, a, b V2) (float64, V2) {
	d := b.Sub(a)
	l2 := d.Dot(d)
	t := 0.0
	if l2 > 0 {
		t = p.Sub(a).Dot(d) / l2
	}
	t = math.Max(0, math.Min(1, t))
	c := a.Add(d.Scale(t))
	return p.Dist(c), c
}

// PointSegDist3 returns the distance from p to segment ab and the closest point.
func PointSegDist3(p, a, b V3) (float64, V3) {
	d := b.Sub(a)
	l2 := d.Dot(d)
	t := 0.0
	if l2 > 0 {
		t = p.Sub(a).Dot(d) / l2
	}
	t = math.Max(0, math.Min(1, t))
	c := a.Add(d.Scale(t))
	return p.Dist(c), c
}

// PointTriDist returns the distance from p to the triangle and the closest point
// (Ericson, Real-Time Collision Detection 5.1.5).
func PointTriDist(p V3, t Tri) (float64, V3) {
	a, b, c := t[0], t[1], t[2]
	ab, ac, ap := b.Sub(a), c.Sub(a), p.Sub(a)
	d1, d2 := ab.Dot(ap), ac.Dot(ap)
	if d1 <= 0 && d2 <= 0 {
		return p.Dist(a), a
	}
	bp := p.Sub(b)
	d3, d4 := ab.Dot(bp), ac.Dot(bp)
	if d3 >= 0 && d4 <= d3 {
		return p.Dist(b), b
	}
	vc := d1*d4 - d3*d2
	if vc <= 0 && d1 >= 0 && d3 <= 0 {
		v := d1 / (d1 - d3)
		q := a.Add(ab.Scale(v))
		return p.Dist(q), q
	}
	cp := p.Sub(c)
	d5, d6 := ab.Dot(cp), ac.Dot(cp)
	if d6 >= 0 && d5 <= d6 {
		return p.Dist(c), c
	}
	vb := d5*d2 - d1*d6
	if vb <= 0 && d2 >= 0 && d6 <= 0 {
		w := d2 / (d2 - d6)
		q := a.Add(ac.Scale(w))
		return p.Dist(q), q
	}
	va := d3*d6 - d5*d4
	if va <= 0 && (d4-d3) >= 0 && (d5-d6) >= 0 {
		w := (d4 - d3) / ((d4 - d3) + (d5 - d6))
		q := b.Add(c.Sub(b).Scale(w))
		return p.Dist(q), q
	}
	den := 1 / (va + vb + vc)
	v, w := vb*den, vc*den
	q := a.Add(ab.Scale(v)).Add(ac.Scale(w))
	return p.Dist(q), q
}

// MeshDist is the brute-force distance from p to a triangle soup.
func MeshDist(tris []Tri, p V3) (float64, int) {
	best, bi := math.Inf(1), -1
	for i, t := range tris {
		if d, _ := PointTriDist(p, t); d < best {
			best, bi = d, i
		}
	}
	return best, bi
}

// MeshDist2 is the brute-force distance from p to a segment soup.
func MeshDist2(segs []Seg, p V2) (float64, int) {
	best, bi := math.Inf(1), -1
	for i, s := range segs {
		if d, _ := PointSegDist2(p, s[0], s[1]); d < best {
			best, bi = d, i
		}
	}
	return best, bi
}

// ---------------------------------------------------------------------------
// Polygon kit

// Orient2 is twice the signed area of (a,b,c), positive when counter-clockwise.
func Orient2(a, b, c V2) float64 { return b.Sub(a).Cross(c.Sub(a)) }

// SegmentsProperlyCross reports whether the open segments ab and cd cross at a
// single interior point of both (tolerance-free orientation signs; touching or
// colinear configurations return false).
func SegmentsProperlyCross(a, b, c, d V2) bool {
	o1, o2 := Orient2(a, b, c), Orient2(a, b, d)
	o3, o4 := Orient2(c, d, a), Orient2(c, d, b)
	return ((o1 > 0 && o2 < 0) || (o1 < 0 && o2 > 0)) && ((o3 > 0 && o4 < 0) || (o3 < 0 && o4 > 0))
}

// EvenOdd2 reports whether p is inside the region bounded by the (unordered,
// unoriented) segments by the even-odd rule, using a ray in a generic direction.
// ok=false when p is within tol of the boundary or the ray passes within a
// relative 1e-12 of a vertex.
func EvenOdd2(segs []Seg, p V2, tol float64) (inside bool, ok bool) {
	if d, _ := MeshDist2(segs, p); d <= tol {
		return false, false
	}
	dirs := []V2{{0.8236715, 0.5670664}, {-0.3141, 0.94939}, {0.1234, -0.99236}}
	for _, d := range dirs {
		n := 0
		bad := false
		for _, s := range segs {
			a, b := s[0].Sub(p), s[1].Sub(p)
			ca, cb := d.Cross(a), d.Cross(b)
			scale := (a.Norm() + b.Norm()) * 1e-12
			if math.Abs(ca) <= scale || math.Abs(cb) <= scale {
				// ray may pass through a vertex; only matters if the vertex is in front
				if (math.Abs(ca) <= scale && d.Dot(a) > 0) || (math.Abs(cb) <= scale && d.Dot(b) > 0) {
					bad = true
					break
				}
			}
			if (ca > 0) == (cb > 0) {
				continue
			}
			// intersection parameter along the ray
			t := a.Cross(b.Sub(a)) / d.Cross(b.Sub(a))
			if t > 0 {
				n++
			}
		}
		if !bad {
			return n%2 == 1, true
		}
	}
	return false, false
}

// TriTriOverlapArea2 returns the area of intersection of two 2D triangles
// (Sutherland–Hodgman clipping); used to assert disjoint interiors with a tolerance.
func TriTriOverlapArea2(t1, t2 [3]V2) float64 {
	if Orient2(t2[0], t2[1], t2[2]) < 0 {
		t2[1], t2[2] = t2[2], t2[1]
	}
	poly := []V2{t1[0], t1[1], t1[2]}
	for i := 0; i < 3 && len(poly) > 0; i++ {
		a, b := t2[i], t2[(i+1)%3]
		var out []V2
		for j := range poly {
			p, q := poly[j], poly[(j+1)%len(poly)]
			op, oq := Orient2(a, b, p), Orient2(a, b, q)
			if op >= 0 {
				out = append(out, p)
			}
			if (op > 0 && oq < 0) || (op < 0 && oq > 0) {
				t := op / (op - oq)
				out = append(out, p.Add(q.Sub(p).Scale(t)))
			}
		}
		poly = out
	}
	var s float64
	for j := range poly {
		s += poly[j].Cross(poly[(j+1)%len(poly)])
	}
	return math.Abs(s) / 2
}

// SortedFloats returns a sorted copy.
func SortedFloats(x []float64) []float64 {
	y := append([]float64(nil), x...)
	sort.Float64s(y)
	return y
}

// ---------------------------------------------------------------------------
// Perturbed exact crossing test (axis-parallel segment vs. triangle soup)

// AxisCrossings counts the triangles crossed by the open segment from p to p+len*e_axis
// (len > 0).  The query line is shifted by the generic offset off (two components, applied
// to the two other axes) so that it never passes exactly through a triangle edge that was
// placed symmetrically about the lattice line; if an orientation predicate is exactly zero
// nevertheless, ok=false and the caller retries with another offset.  For every crossed
// triangle, sign reports the sign of the triangle normal's component along +axis.
func AxisCrossings(tris []Tri, p V3, axis int, length float64, off [2]float64) (count int, signs []int, ok bool) {
	u, v := (axis+1)%3, (axis+2)%3
	c := V2{p[u] + off[0], p[v] + off[1]}
	lo, hi := p[axis], p[axis]+length
	ok = true
	for _, t := range tris {
		a, b, d := V2{t[0][u], t[0][v]}, V2{t[1][u], t[1][v]}, V2{t[2][u], t[2][v]}
		// bounding box rejection
		if (a[0] < c[0] && b[0] < c[0] && d[0] < c[0]) || (a[0] > c[0] && b[0] > c[0] && d[0] > c[0]) ||
			(a[1] < c[1] && b[1] < c[1] && d[1] < c[1]) || (a[1] > c[1] && b[1] > c[1] && d[1] > c[1]) {
			continue
		}
		o1, o2, o3 := Orient2(a, b, c), Orient2(b, d, c), Orient2(d, a, c)
		if o1 == 0 || o2 == 0 || o3 == 0 {
			// on an edge line: decisive only if the other two signs already disagree
			if (o1 > 0 || o2 > 0 || o3 > 0) && (o1 < 0 || o2 < 0 || o3 < 0) {
				continue
			}
			ok = false
			continue
		}
		if !((o1 > 0 && o2 > 0 && o3 > 0) || (o1 < 0 && o2 < 0 && o3 < 0)) {
			continue
		}
		// height of the crossing by barycentric interpolation
		s := o1 + o2 + o3
		h := (o2*t[0][axis] + o3*t[1][axis] + o1*t[2][axis]) / s
		if h <= lo || h >= hi {
			continue
		}
		count++
		n := t.Normal()[axis]
		switch {
		case n > 0:
			signs = append(signs, 1)
		case n < 0:
			signs = append(signs, -1)
		default:
			signs = append(signs, 0)
		}
	}
	return
}

// V3Less is the lexicographic order on V3.
func V3Less(a, b V3) bool { return less3(a, b) }
