// Package kit is the shared runner and oracle toolkit of the verification
// harness.  run.go: clause runner (rapid-driven and enumerated), statistics,
// replay, watchdog.
package kit

import (
	"encoding/binary"
	"encoding/json"
	"errors"
	"flag"
	"fmt"
	"hash/fnv"
	"os"
	"path/filepath"
	"runtime/debug"
	"sort"
	"strconv"
	"strings"
	"sync"
	"sync/atomic"
	"testing"
	"time"

	"pgregory.net/rapid"
)

// Obs collects per-case observations made by a Check function.
type Obs struct {
	nontrivial bool
	skipped    string
	labels     []string
}

// NonTrivial marks the case as non-trivial by the property's stated rule.
func (o *Obs) NonTrivial() { o.nontrivial = true }

// Label classifies the case (histogram in the evidence).
func (o *Obs) Label(s string) { o.labels = append(o.labels, s) }

// Labelf is Label with formatting.
func (o *Obs) Labelf(f string, a ...any) { o.labels = append(o.labels, fmt.Sprintf(f, a...)) }

// Skip marks the case (or a part of it) as not decidable (e.g. too close to a
// decision boundary).  Skips are counted, never violations.
func (o *Obs) Skip(reason string) { o.skipped = reason; o.labels = append(o.labels, "skip:"+reason) }

// Runnable is a clause that the runner can generate cases for and replay.
type Runnable interface {
	ClauseName() string
	generate(r *runner, t *testing.T)
	replay(raw json.RawMessage) (error, *Obs)
	budget() time.Duration
}

// Clause is a randomly generated check.  Gen draws a JSON-serialisable case from
// rapid; Check is a pure function of the case.
type Clause[C any] struct {
	Name     string
	Gen      func(t *rapid.T) C
	Check    func(c C, o *Obs) error
	Quick    int           // number of generated cases in the quick tier (all shards together)
	Thorough int           // ditto, thorough tier
	Budget   time.Duration // watchdog per case (0: default 120 s)
	Fresh    bool          // write the case to disk before running it (crash attribution)
}

// Enum is an exhaustively enumerated check over indices [0, N).
type Enum[C any] struct {
	Name        string
	N           int
	At          func(i int) C
	Check       func(c C, o *Obs) error
	QuickStride int // quick tier visits every QuickStride-th index (offset from the seed); <=1: all
	Budget      time.Duration
	Fresh       bool // write the case to disk before running it (crash attribution)
}

type failure struct {
	Clause string          `json:"clause"`
	Msg    string          `json:"msg"`
	Case   json.RawMessage `json:"case"`
	File   string          `json:"file"`
}

type clauseStats struct {
	Evaluations int64            `json:"evaluations"`
	NonTrivial  int64            `json:"nontrivial"`
	Skipped     int64            `json:"skipped"`
	Planned     int64            `json:"planned"`
	TimedOut    bool             `json:"budget_exhausted"`
	Exhaustive  bool             `json:"exhaustive"`
	Labels      map[string]int64 `json:"labels"`
	Samples     []sample         `json:"samples"`
	WallS       float64          `json:"wall_s"`
	Failure     *failure         `json:"failure,omitempty"`
}

type sample struct {
	h    uint64
	Case json.RawMessage `json:"case"`
}

type runner struct {
	prop    string
	rule    string
	tier    string
	seed    uint64
	shard   int
	nshards int
	outDir  string
	mu      sync.Mutex
	stats   map[string]*clauseStats
	order   []string
	hashes  map[uint64]struct{}
	// watchdog state
	curClause atomic.Value // string
	curCase   atomic.Value // []byte (json) or func() []byte
	curStart  atomic.Int64
	curBudget atomic.Int64
	deadline  time.Time // soft end of the whole run
}

var excluded = map[string]bool{}
var exclusionCount sync.Map

// Excluded reports whether the named input class has been switched off because a
// listed known finding was confirmed still present by the replay tier.  Generators
// must avoid the class (and call CountExcluded) when it returns true.
func Excluded(tag string) bool { return excluded[tag] }

// CountExcluded counts one avoided case of an excluded class.
func CountExcluded(tag string) {
	v, _ := exclusionCount.LoadOrStore(tag, new(int64))
	atomic.AddInt64(v.(*int64), 1)
}

func envInt(name string, def int) int {
	if s := os.Getenv(name); s != "" {
		if v, err := strconv.Atoi(s); err == nil {
			return v
		}
	}
	return def
}

// Tier returns "quick" or "thorough".
func Tier() string {
	if os.Getenv("VERIF_TIER") == "thorough" {
		return "thorough"
	}
	return "quick"
}

func mix(parts ...any) uint64 {
	h := fnv.New64a()
	for _, p := range parts {
		fmt.Fprintf(h, "%v|", p)
	}
	v := h.Sum64()
	// splitmix finaliser
	v ^= v >> 30
	v *= 0xbf58476d1ce4e5b9
	v ^= v >> 27
	v *= 0x94d049bb133111eb
	v ^= v >> 31
	return v
}

// Run is the entry point of every property package's single test.
func Run(t *testing.T, prop string, rule string, clauses ...Runnable) {
	for _, tag := range strings.Split(os.Getenv("VERIF_EXCLUDE"), ",") {
		if tag != "" {
			excluded[tag] = true
		}
	}
	if f := os.Getenv("VERIF_REPLAY"); f != "" {
		runReplay(t, f, clauses)
		return
	}
	r := &runner{
		prop:    prop,
		rule:    rule,
		tier:    Tier(),
		seed:    uint64(envInt("VERIF_SEED", 1)),
		shard:   envInt("VERIF_SHARD", 0),
		nshards: envInt("VERIF_NSHARDS", 1),
		outDir:  os.Getenv("VERIF_OUT"),
		stats:   map[string]*clauseStats{},
		hashes:  map[uint64]struct{}{},
	}
	if r.outDir == "" {
		r.outDir = t.TempDir()
	}
	os.MkdirAll(r.outDir, 0o755)
	if s := envInt("VERIF_BUDGET_S", 0); s > 0 {
		r.deadline = time.Now().Add(time.Duration(s) * time.Second)
	}
	only := os.Getenv("VERIF_CLAUSE")
	go r.watchdog()
	flag.Set("rapid.nofailfile", "true")
	flag.Set("rapid.shrinktime", "20s")
	for _, c := range clauses {
		if only != "" && !strings.Contains(c.ClauseName(), only) {
			continue
		}
		c := c
		r.order = append(r.order, c.ClauseName())
		r.stats[c.ClauseName()] = &clauseStats{Labels: map[string]int64{}}
		start := time.Now()
		t.Run(strings.ReplaceAll(c.ClauseName(), "/", "_"), func(t *testing.T) {
			c.generate(r, t)
		})
		r.stats[c.ClauseName()].WallS = time.Since(start).Seconds()
		r.flush()
	}
	r.curStart.Store(0)
	r.flush()
}

func (r *runner) flush() {
	r.mu.Lock()
	defer r.mu.Unlock()
	type out struct {
		Prop       string                  `json:"property"`
		Rule       string                  `json:"rule"`
		Tier       string                  `json:"tier"`
		Seed       uint64                  `json:"seed"`
		Shard      int                     `json:"shard"`
		Order      []string                `json:"order"`
		Clauses    map[string]*clauseStats `json:"clauses"`
		Exclusions map[string]int64        `json:"exclusions"`
	}
	o := out{r.prop, r.rule, r.tier, r.seed, r.shard, r.order, r.stats, map[string]int64{}}
	exclusionCount.Range(func(k, v any) bool {
		o.Exclusions[k.(string)] = atomic.LoadInt64(v.(*int64))
		return true
	})
	b, err := json.Marshal(o)
	if err != nil {
		panic(err)
	}
	tmp := filepath.Join(r.outDir, fmt.Sprintf("stats.%d.json.tmp", r.shard))
	os.WriteFile(tmp, b, 0o644)
	os.Rename(tmp, filepath.Join(r.outDir, fmt.Sprintf("stats.%d.json", r.shard)))
	hb := make([]byte, 0, 8*len(r.hashes))
	for h := range r.hashes {
		hb = binary.LittleEndian.AppendUint64(hb, h)
	}
	os.WriteFile(filepath.Join(r.outDir, fmt.Sprintf("hashes.%d.bin", r.shard)), hb, 0o644)
}

func (r *runner) watchdog() {
	for {
		time.Sleep(500 * time.Millisecond)
		st := r.curStart.Load()
		if st == 0 {
			continue
		}
		if time.Since(time.Unix(0, st)) > time.Duration(r.curBudget.Load()) {
			name, _ := r.curClause.Load().(string)
			var raw []byte
			switch v := r.curCase.Load().(type) {
			case []byte:
				raw = v
			}
			f := failure{Clause: name + "/terminates", Msg: fmt.Sprintf("case did not finish within the watchdog budget %v", time.Duration(r.curBudget.Load())), Case: raw}
			b, _ := json.Marshal(f)
			os.WriteFile(filepath.Join(r.outDir, fmt.Sprintf("hang.%d.json", r.shard)), b, 0o644)
			r.flushNoLock()
			os.Exit(3)
		}
	}
}

func (r *runner) flushNoLock() {
	done := make(chan struct{})
	go func() { r.flush(); close(done) }()
	select {
	case <-done:
	case <-time.After(5 * time.Second):
	}
}

func caseJSON(c any) []byte {
	b, err := json.Marshal(c)
	if err != nil {
		panic(fmt.Sprintf("kit: case is not JSON-serialisable: %v", err))
	}
	return b
}

func hashBytes(name string, b []byte) uint64 {
	h := fnv.New64a()
	h.Write([]byte(name))
	h.Write([]byte{0})
	h.Write(b)
	return h.Sum64()
}

const maxSamples = 4

// safeCheck runs check, converting a panic into an error (with stack).
func safeCheck[C any](check func(C, *Obs) error, c C, o *Obs) (err error) {
	defer func() {
		if p := recover(); p != nil {
			st := string(debug.Stack())
			if len(st) > 3000 {
				st = st[:3000]
			}
			err = fmt.Errorf("panic: %v\n%s", p, st)
		}
	}()
	return check(c, o)
}

func (r *runner) begin(name string, budget time.Duration, raw []byte, fresh bool) {
	if budget == 0 {
		budget = 120 * time.Second
	}
	r.curClause.Store(name)
	r.curCase.Store(raw)
	r.curBudget.Store(int64(budget))
	r.curStart.Store(time.Now().UnixNano())
	if fresh {
		os.WriteFile(filepath.Join(r.outDir, fmt.Sprintf("current.%d.json", r.shard)),
			mustJSON(failure{Clause: name, Msg: "process died while running this case", Case: raw}), 0o644)
	}
}

func mustJSON(v any) []byte {
	b, err := json.Marshal(v)
	if err != nil {
		panic(err)
	}
	return b
}

func (r *runner) end(fresh bool) {
	r.curStart.Store(0)
	if fresh {
		os.Remove(filepath.Join(r.outDir, fmt.Sprintf("current.%d.json", r.shard)))
	}
}

func (r *runner) record(name string, raw []byte, o *Obs, err error) {
	r.mu.Lock()
	defer r.mu.Unlock()
	st := r.stats[name]
	st.Evaluations++
	for _, l := range o.labels {
		st.Labels[l]++
	}
	if o.skipped != "" {
		st.Skipped++
	}
	h := hashBytes(name, raw)
	if o.nontrivial && err == nil {
		if _, ok := r.hashes[h]; !ok {
			r.hashes[h] = struct{}{}
			st.NonTrivial++
		}
		// keep the samples with the smallest hashes (deterministic reservoir)
		if len(raw) < 6000 {
			st.Samples = append(st.Samples, sample{h, append([]byte(nil), raw...)})
			sort.Slice(st.Samples, func(i, j int) bool { return st.Samples[i].h < st.Samples[j].h })
			if len(st.Samples) > maxSamples {
				st.Samples = st.Samples[:maxSamples]
			}
		}
	}
	if err != nil {
		file := filepath.Join(r.outDir, fmt.Sprintf("fail.%d.%x.json", r.shard, hashBytes(name, nil)))
		f := &failure{Clause: name, Msg: err.Error(), Case: append([]byte(nil), raw...), File: file}
		st.Failure = f
		os.WriteFile(file, mustJSON(f), 0o644)
	}
}

func (c Clause[C]) ClauseName() string   { return c.Name }
func (c Clause[C]) budget() time.Duration { return c.Budget }

func (c Clause[C]) generate(r *runner, t *testing.T) {
	n := c.Quick
	if r.tier == "thorough" {
		n = c.Thorough
	}
	if n <= 0 {
		return
	}
	per := n / r.nshards
	if r.shard < n%r.nshards {
		per++
	}
	if per == 0 {
		return
	}
	r.stats[c.Name].Planned = int64(per)
	seed := mix(r.seed, r.prop, c.Name, r.shard)>>2 | 1
	flag.Set("rapid.checks", strconv.Itoa(per))
	flag.Set("rapid.seed", strconv.FormatUint(seed, 10))
	failed := false
	rapid.Check(t, func(rt *rapid.T) {
		if !failed && !r.deadline.IsZero() && time.Now().After(r.deadline) {
			r.mu.Lock()
			r.stats[c.Name].TimedOut = true
			r.mu.Unlock()
			return
		}
		cs := c.Gen(rt)
		raw := caseJSON(cs)
		o := &Obs{}
		r.begin(c.Name, c.Budget, raw, c.Fresh)
		err := safeCheck(c.Check, cs, o)
		r.end(c.Fresh)
		r.record(c.Name, raw, o, err)
		if err != nil {
			failed = true
			rt.Fatalf("%s: %v", c.Name, firstLine(err.Error()))
		}
	})
}

func firstLine(s string) string {
	if i := strings.IndexByte(s, '\n'); i >= 0 {
		return s[:i]
	}
	return s
}

func (c Clause[C]) replay(raw json.RawMessage) (error, *Obs) {
	var cs C
	if err := json.Unmarshal(raw, &cs); err != nil {
		return fmt.Errorf("replay: cannot decode case: %w", ErrInfra), nil
	}
	o := &Obs{}
	return safeCheck(c.Check, cs, o), o
}

func (e Enum[C]) ClauseName() string   { return e.Name }
func (e Enum[C]) budget() time.Duration { return e.Budget }

func (e Enum[C]) generate(r *runner, t *testing.T) {
	stride := 1
	if r.tier != "thorough" && e.QuickStride > 1 {
		stride = e.QuickStride
	}
	off := 0
	if stride > 1 {
		off = int(mix(r.seed, e.Name) % uint64(stride))
	}
	st := r.stats[e.Name]
	k := 0
	complete := true
	for i := off; i < e.N; i += stride {
		k++
		if (k-1)%r.nshards != r.shard {
			continue
		}
		if !r.deadline.IsZero() && time.Now().After(r.deadline) {
			st.TimedOut = true
			complete = false
			break
		}
		st.Planned++
		cs := e.At(i)
		raw := caseJSON(cs)
		o := &Obs{}
		r.begin(e.Name, e.Budget, raw, e.Fresh)
		err := safeCheck(e.Check, cs, o)
		r.end(e.Fresh)
		r.record(e.Name, raw, o, err)
		if err != nil {
			t.Errorf("%s: index %d: %v", e.Name, i, firstLine(err.Error()))
			return
		}
	}
	st.Exhaustive = complete && stride == 1
}

func (e Enum[C]) replay(raw json.RawMessage) (error, *Obs) {
	var cs C
	if err := json.Unmarshal(raw, &cs); err != nil {
		return fmt.Errorf("replay: cannot decode case: %w", ErrInfra), nil
	}
	o := &Obs{}
	return safeCheck(e.Check, cs, o), o
}

// ErrInfra marks harness trouble (not a verdict on the property).
var ErrInfra = errors.New("infrastructure")

// runReplay evaluates one saved case directly (no rapid).  Output protocol on
// stdout: "REPLAY-PASS", "REPLAY-FAIL <msg>", or "REPLAY-INFRA <msg>".
func runReplay(t *testing.T, file string, clauses []Runnable) {
	b, err := os.ReadFile(file)
	if err != nil {
		fmt.Printf("REPLAY-INFRA cannot read %s: %v\n", file, err)
		return
	}
	var f failure
	if err := json.Unmarshal(b, &f); err != nil {
		fmt.Printf("REPLAY-INFRA cannot parse %s: %v\n", file, err)
		return
	}
	name := strings.TrimSuffix(f.Clause, "/terminates")
	for _, c := range clauses {
		if c.ClauseName() != name {
			continue
		}
		reps := envInt("VERIF_REPLAY_REPS", 1)
		bud := c.budget()
		if bud == 0 {
			bud = 120 * time.Second
		}
		bud *= 3
		var rerr error
		for i := 0; i < reps && rerr == nil; i++ {
			done := make(chan error, 1)
			go func() { e, _ := c.replay(f.Case); done <- e }()
			select {
			case rerr = <-done:
			case <-time.After(bud):
				fmt.Printf("REPLAY-FAIL %s/terminates: no result within %v\n", name, bud)
				os.Stdout.Sync()
				os.Exit(0)
			}
		}
		if rerr == nil {
			fmt.Println("REPLAY-PASS")
		} else if errors.Is(rerr, ErrInfra) {
			fmt.Printf("REPLAY-INFRA %v\n", rerr)
		} else {
			fmt.Printf("REPLAY-FAIL %s: %s\n", name, strings.ReplaceAll(firstLine(rerr.Error()), "\n", " "))
			if os.Getenv("VERIF_VERBOSE") != "" {
				fmt.Println(rerr.Error())
			}
		}
		return
	}
	fmt.Printf("REPLAY-INFRA no clause named %q in this package\n", name)
}

// Errorf is a convenience for building violation messages.
func Errorf(f string, a ...any) error { return fmt.Errorf(f, a...) }
