// Package m3 converts between the library's types and the kit's plain types.
package m3

import (
	"github.com/unixpickle/model3d/model2d"
	"github.com/unixpickle/model3d/model3d"
	"verifharness/kit"
)

func V3(c model3d.Coord3D) kit.V3 { return kit.V3{c.X, c.Y, c.Z} }
func C3(v kit.V3) model3d.Coord3D { return model3d.XYZ(v[0], v[1], v[2]) }
func V2(c model2d.Coord) kit.V2   { return kit.V2{c.X, c.Y} }
func C2(v kit.V2) model2d.Coord   { return model2d.XY(v[0], v[1]) }

func Tri(t *model3d.Triangle) kit.Tri { return kit.Tri{V3(t[0]), V3(t[1]), V3(t[2])} }
func Seg(s *model2d.Segment) kit.Seg  { return kit.Seg{V2(s[0]), V2(s[1])} }

// Tris lists the mesh's faces via Iterate (each face once).
func Tris(m *model3d.Mesh) []kit.Tri {
	var out []kit.Tri
	m.Iterate(func(t *model3d.Triangle) { out = append(out, Tri(t)) })
	return out
}

// Segs lists the 2D mesh's faces.
func Segs(m *model2d.Mesh) []kit.Seg {
	var out []kit.Seg
	m.Iterate(func(s *model2d.Segment) { out = append(out, Seg(s)) })
	return out
}

// MeshFromTris builds a library mesh from plain triangles.
func MeshFromTris(ts []kit.Tri) *model3d.Mesh {
	m := model3d.NewMesh()
	for _, t := range ts {
		m.Add(&model3d.Triangle{C3(t[0]), C3(t[1]), C3(t[2])})
	}
	return m
}

// MeshFromSegs builds a library 2D mesh from plain segments.
func MeshFromSegs(ss []kit.Seg) *model2d.Mesh {
	m := model2d.NewMesh()
	for _, s := range ss {
		m.Add(&model2d.Segment{C2(s[0]), C2(s[1])})
	}
	return m
}
