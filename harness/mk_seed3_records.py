#!/usr/bin/env python3
import json, os, re, shutil, glob
V='/verif'
first={}   # id -> initial line
for f in glob.glob(V+'/out/seed3_[123].log'):
    for l in open(f):
        m=re.match(r'SEED (\S+) suite=(\S+?)(\(.*?\))? demo_with=(\S+) demo_without=(\S+) check=(\S+)', l)
        if m: first[m.group(1)]=dict(suite=m.group(2), dw=m.group(4), dwo=m.group(5), check=m.group(6))
final={}
for f in glob.glob(V+'/out/seed3f_[123].log'):
    for l in open(f):
        m=re.match(r'SEED (\S+) .*check=(\S+) tier=\S+ rc=\d+ (.*?) against=(\S+)', l)
        if m: final[m.group(1)]=dict(check=m.group(2), where=m.group(3).strip(), cid=m.group(4))
strengthened={
 'C01-11':'box sets on scaled lattices far from the origin (exactly representable placements)',
 'C03-9':'argument sets of RectSet set operations stay alive, are re-compared and edited later (C04); edited sibling of the set under test (C03)',
 'C04-9':'one operand slice shared by the combinators as a caller would; must keep its order',
 'C05-9':'ray queries cast from inside a RayCollisions callback; ray argument only read',
 'C05-11':'first collision carries the normal the enumeration reports for it (2D and 3D)',
 'C06-10':'2D twins of the derived-field cases; ColliderToSDF over transformed colliders',
 'C07-9':'an assembly joined into several larger joined colliders',
 'C07-10':'first collision carries the enumerated normal, for every collider but the solid-sampling one',
 'C07-11':'BVH with branches of more than two children',
 'C08-9':'KNN answers kept and re-read after later queries',
 'C09-9':'Find / Neighbors answers kept across later edits, then overwritten by the caller',
 'C09-10':'MapCoords with a stateful function: one call per vertex, faces per vertex preserved',
 'C09-11':'edges one ulp long through EliminateEdges (patch rebased onto d2e5ea8, which repaired a genuine defect in the same function)',
 'C10-9':'every operation that returns a new mesh is followed by a comparison of its input',
 'C10-11':'ARAP inputs in units of 1e-6 .. 1e4',
 'C11-9':'repair functions leave the mesh they were called on alone',
 'C13-10':'dual contouring with RandomSearchNormals under several workers',
 'C13-11':'height maps with 64-300 spheres per worker',
 'C14-10':'outlines of 40-160 vertices in both windings',
 'C15-11':'OFF and ASCII STL lines stretched with blanks beyond 4 KB',
 'C16-9':'PLY files with a second face / vertex element before, between or after the standard ones',
 'C17-10':'SVD of exactly rescaled matrices (2^-20 .. 2^20)',
 'C18-10':'binary layouts (power-of-two rectangles, borders an exact binary fraction of the side) and resolutions 16 and 32',
 'C18-9':'the harness loosens a default solver of its own before every nil-solver call',
}
cross={'C02-10':'C12','C02-11':'C12','C14-11':'C11'}
for d in sorted(glob.glob('/tmp/mut-out/C??-9')+glob.glob('/tmp/mut-out/C??-1[01]')):
    id=os.path.basename(d)
    dst=os.path.join(V,'seeded',id)
    os.makedirs(dst,exist_ok=True)
    for fn in os.listdir(d):
        if fn.endswith('.diff') or fn in ('demo_test.go','notes.md'):
            shutil.copy(os.path.join(d,fn), os.path.join(dst,fn))
    notes=open(os.path.join(d,'notes.md')).read()
    title=notes.splitlines()[0]
    what=re.sub(r'^#\s*\S+\s*[—-]+\s*','',title).strip()
    what=re.sub(r'\s*\((category|Category)[^)]*\)\s*','',what).strip().replace('`','')
    m=re.search(r'^##[^\n]*(needed|Needs|manifest)[^\n]*\n(.*?)(\n## |\Z)', notes, re.S|re.M|re.I)
    needs=''
    if m:
        needs=' '.join(x.strip() for x in m.group(2).strip().splitlines())
        needs=re.sub(r'\s+',' ',needs).replace('`','')
        if len(needs)>330: needs=needs[:327].rsplit(' ',1)[0]+' …'
    fi=first.get(id,{}); fn_=final.get(id,{})
    meta={'property':id.split('-')[0],'what':what,'needs':needs}
    initial=fi.get('check','?')
    if id in strengthened: initial='missed'  # some lanes ran after the strengthening; the first run of these was a miss
    if id=='C16-10': initial='caught'
    if id=='C18-10': initial='missed'  # caught by one shard in eight at first: too thin, counted as a miss  # first run hit a concurrent harness rebuild (driver exit 2); caught on the re-run
    if id in cross:
        meta['quick']='missed (belongs to %s: caught there)'%cross[id]
        meta['caught_by']='%s: %s'%(cross[id], fn_.get('where',''))
    elif initial=='caught':
        meta['quick']='caught'; meta['caught_by']=fn_.get('where','')
    else:
        meta['quick']='missed at first; caught after strengthening'
        meta['strengthened']=strengthened.get(id,'')
        meta['caught_by']=fn_.get('where','')
    meta['final_check']=fn_.get('check','?')
    meta['suite']=fi.get('suite','?')
    demo='fails with the change, passes without (./seedtest)' if fi.get('dw')=='FAIL' and fi.get('dwo')=='pass' else 'with=%s without=%s'%(fi.get('dw'),fi.get('dwo'))
    if id=='C13-11': demo='needs the race detector: fails with the change (5 races), passes without (go test -race, run by hand)'
    meta['demo']=demo
    meta['source']='independent sub-agent (round 3) given the property text, a category list (a)-(g) and one-line descriptions of earlier changes'
    meta['ran']='./seedtest /tmp/mut-out/%s %s --suite; final pass ./seedtest ... %s --no-demo'%(id,id.split('-')[0],fn_.get('cid',id.split('-')[0]))
    json.dump(meta,open(os.path.join(dst,'meta.json'),'w'),indent=1,ensure_ascii=False)
    print(id, meta['quick'][:30], '|', meta['final_check'], '|', meta['caught_by'][:50])
