#!/usr/bin/env python3
import json, os, re, shutil, glob
V='/verif'
first={}   # id -> initial line
for f in [x for x in glob.glob(V+'/out/seed4*.log') if 'seed4f' not in x]:
    for l in open(f):
        m=re.match(r'SEED (\S+) suite=(\S+?)(\(.*?\))? demo_with=(\S+) demo_without=(\S+) check=(\S+)', l)
        if m: first[m.group(1)]=dict(suite=m.group(2), dw=m.group(4), dwo=m.group(5), check=m.group(6))
final={}
for f in glob.glob(V+'/out/seed4f_[123].log'):
    for l in open(f):
        m=re.match(r'SEED (\S+) .*check=(\S+) tier=\S+ rc=\d+ (.*?) against=(\S+)', l)
        if m: final[m.group(1)]=dict(check=m.group(2), where=m.group(3).strip(), cid=m.group(4))
strengthened={
 'C01-12':'the duplicate of a polytope constraint is inserted anywhere in the list, not only appended',
 'C01-13':'NewMeshPolar with the documented nil radius',
 'C03-12':'screws that are a modified copy of (or the same object as) a screw whose bounds were asked for',
 'C03-13':'clamp limits exactly on the kid\'s own bounds and equal to each other; the clamp axis is decided exactly',
 'C03-14':'height-map cells written one by one (SetHeightSquaredAt, the exported Data slice) after the spheres',
 'C04-13':'the previous AllContains answer is re-read after the next query',
 'C04-14':'box-set coordinate tables in units of 2^-45 .. 2^30',
 'C06-13':'Triangle.Dist on triangles of zero area and slivers (patch rebased onto d4a190c, which repaired a genuine defect in the same function)',
 'C07-13':'a joined transform applied as one TransformCollider per part (wrapper of a wrapper)',
 'C07-14':'SolidCollider options in all combinations; with the bisection method the median normal error of a case is judged',
 'C08-12':'new clause: mesh colliders over meshes with zero-area (segment) triangles, ball and box queries and bounds',
 'C08-14':'point sets, query points and radii in units of 2^-60 .. 2^40',
 'C09-13':'the callback of Iterate removes faces that were not visited yet and adds one',
 'C09-14':'the source mesh of an editor (index built beforehand) is re-checked after the call',
 'C10-12':'a rigid motion is a fixed point of the ARAP alternation for any pair of weightings (DeformMap started from it)',
 'C11-12':'the moved hierarchy is asked at the moved probes and for its bounds',
 'C11-13':'2D RepairNormals with mesh, probes and eps in units of 1e-3 .. 1e4',
 'C13-14':'one union shared by four goroutines that call Optimize and Contains at once (first-use clause)',
 'C14-14':'new outline family: triangles with one subdivided side',
 'C15-13':'the header and the element returned with each row keep their declared counts during and after reading',
 'C15-14':'OFFReader faces are collected first and compared afterwards',
 'C16-12':'PLY colour files with the face element declared before the vertices',
 'C16-13':'binary PLY files with one list of 2040-2700 items',
 'C18-13':'ExtendBoundaryUVs after Floater97 on the library\'s boundaries: finite, nothing flipped, flat ears get area',
 'C18-14':'MapFn on a mirrored (clockwise) copy of the atlas',
 'C19-13':'joined lights with up to five members, one of them switched off, anywhere but first',
 'C19-14':'new closed-form clause for Henyey-Greenstein lobes within 1e-2 .. 1e-8 of the forward limit',
 'C20-14':'the reflective furnace passes the (roulette) Cutoff to the bidirectional tracer; albedo up to 0.8',
}
cross={'C02-13':'C12','C02-14':'C05'}
for d in sorted(glob.glob('/tmp/mut-out/C??-1[234]')):
    id=os.path.basename(d)
    dst=os.path.join(V,'seeded',id)
    os.makedirs(dst,exist_ok=True)
    for fn in os.listdir(d):
        if fn.endswith('.diff') or fn in ('demo_test.go','notes.md'):
            shutil.copy(os.path.join(d,fn), os.path.join(dst,fn))
    notes=open(os.path.join(d,'notes.md')).read()
    title=notes.splitlines()[0]
    what=re.sub(r'^#\s*\S+\s*[—-]+\s*','',title).strip()
    what=re.sub(r'\s*\((category|Category)[^)]*\)\s*','',what).strip().replace('`','')
    m=re.search(r'^##[^\n]*(needed|Needs|manifest)[^\n]*\n(.*?)(\n## |\Z)', notes, re.S|re.M|re.I)
    needs=''
    if m:
        needs=' '.join(x.strip() for x in m.group(2).strip().splitlines())
        needs=re.sub(r'\s+',' ',needs).replace('`','')
        if len(needs)>330: needs=needs[:327].rsplit(' ',1)[0]+' …'
    fi=first.get(id,{}); fn_=final.get(id,{})
    meta={'property':id.split('-')[0],'what':what,'needs':needs}
    initial=fi.get('check','?')
    if id in strengthened: initial='missed'  # some lanes ran after the strengthening; the first run of these was a miss
    if id=='C18-10': initial='missed'  # caught by one shard in eight at first: too thin, counted as a miss  # first run hit a concurrent harness rebuild (driver exit 2); caught on the re-run
    if id in cross:
        meta['quick']='missed (belongs to %s: caught there)'%cross[id]
        meta['caught_by']='%s: %s'%(cross[id], fn_.get('where',''))
    elif initial=='caught':
        meta['quick']='caught'; meta['caught_by']=fn_.get('where','')
    else:
        meta['quick']='missed at first; caught after strengthening'
        meta['strengthened']=strengthened.get(id,'')
        meta['caught_by']=fn_.get('where','')
    meta['final_check']=fn_.get('check','?')
    meta['suite']=fi.get('suite','?')
    demo='fails with the change, passes without (./seedtest)' if fi.get('dw')=='FAIL' and fi.get('dwo')=='pass' else 'with=%s without=%s'%(fi.get('dw'),fi.get('dwo'))
    meta['demo']=demo
    meta['source']='independent sub-agent (round 4) given the property text, a category list (a)-(k) and one-line descriptions of earlier changes'
    meta['ran']='./seedtest /tmp/mut-out/%s %s --suite; final pass ./seedtest ... %s --no-demo'%(id,id.split('-')[0],fn_.get('cid',id.split('-')[0]))
    json.dump(meta,open(os.path.join(dst,'meta.json'),'w'),indent=1,ensure_ascii=False)
    print(id, meta['quick'][:30], '|', meta['final_check'], '|', meta['caught_by'][:50])
