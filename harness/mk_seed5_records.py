#!/usr/bin/env python3
import json, os, re, shutil, glob
V='/verif'
first={}   # id -> initial line
for f in [x for x in glob.glob(V+'/out/seed5_*.log') if 'seed5f' not in x]:
    for l in open(f):
        m=re.match(r'SEED (\S+) suite=(\S+?)(\(.*?\))? demo_with=(\S+) demo_without=(\S+) check=(\S+)', l)
        if m: first[m.group(1)]=dict(suite=m.group(2), dw=m.group(4), dwo=m.group(5), check=m.group(6))
final={}
for f in glob.glob(V+'/out/seed5f_[123].log'):
    for l in open(f):
        m=re.match(r'SEED (\S+) .*check=(\S+) tier=\S+ rc=\d+ (.*?) against=(\S+)', l)
        if m: final[m.group(1)]=dict(check=m.group(2), where=m.group(3).strip(), cid=m.group(4))
strengthened={
 'C01-15':'an icosahedron taken from the constructor is edited before every icosphere is built',
 'C01-16':'2D NewMeshPolar with a radius function that has a state of its own',
 'C02-15':'solids and spacings in units of 2^-40 .. 2^20 with 4-14 bisection steps',
 'C03-16':'the caller reuses (changes) its *Translate after TransformSolid',
 'C03-17':'cylinders and cones tilted by 1e-10 .. 1e-4 rad against a coordinate axis, radius up to 300x (patch rebased onto 25bbfe0, which repaired a genuine rounding defect in the same function)',
 'C05-15':'a joined transform applied as one TransformCollider per part (2D and 3D)',
 'C05-17':'exactly representable boxes under exactly representable maps: corners, edges, faces of the image',
 'C07-16':'every collider: another ray is cast at it from inside the RayCollisions callback',
 'C08-16':'mesh distance fields in units of 2^-50 .. 2^40',
 'C09-15':'slice-valued maps store lists of two, one and no items',
 'C09-16':'keys that differ in the sign of their zeros next to subnormal components',
 'C11-15':'NeedsRepair is asked again after the vertex index of the same mesh object has been built',
 'C11-17':'Repair on soups moved 1e3 .. 1e7 from the origin (coordinate / eps beyond 2^31)',
 'C13-15':'every concurrent reader reorders and extends the answer it got from Find',
 'C17-17':'new clause: SVD of small-integer plain, symmetric and circulant matrices',
 'C18-16':'JoinMeshUVMaps must leave every chart it was given as it was',
 'C19-15':'refractive materials that were used with another index before, and copies of them',
 'C20-17':'cameras whose screen axes are normalised but not perpendicular',
}
cross={'C01-17':'C13'}
for d in sorted(glob.glob('/tmp/mut-out/C??-1[567]')):
    id=os.path.basename(d)
    dst=os.path.join(V,'seeded',id)
    os.makedirs(dst,exist_ok=True)
    for fn in os.listdir(d):
        if fn.endswith('.diff') or fn in ('demo_test.go','notes.md'):
            shutil.copy(os.path.join(d,fn), os.path.join(dst,fn))
    notes=open(os.path.join(d,'notes.md')).read()
    title=notes.splitlines()[0]
    what=re.sub(r'^#\s*\S+\s*[—-]+\s*','',title).strip()
    what=re.sub(r'\s*\((category|Category)[^)]*\)\s*','',what).strip().replace('`','')
    m=re.search(r'^##[^\n]*(needed|Needs|manifest)[^\n]*\n(.*?)(\n## |\Z)', notes, re.S|re.M|re.I)
    needs=''
    if m:
        needs=' '.join(x.strip() for x in m.group(2).strip().splitlines())
        needs=re.sub(r'\s+',' ',needs).replace('`','')
        if len(needs)>330: needs=needs[:327].rsplit(' ',1)[0]+' …'
    fi=first.get(id,{}); fn_=final.get(id,{})
    meta={'property':id.split('-')[0],'what':what,'needs':needs}
    initial=fi.get('check','?')
    if id in strengthened: initial='missed'  # some lanes ran after the strengthening; the first run of these was a miss
    if id=='C18-10': initial='missed'  # caught by one shard in eight at first: too thin, counted as a miss  # first run hit a concurrent harness rebuild (driver exit 2); caught on the re-run
    if id in cross:
        meta['quick']='missed (belongs to %s: caught there)'%cross[id]
        meta['caught_by']='%s: %s'%(cross[id], fn_.get('where',''))
    elif initial=='caught':
        meta['quick']='caught'; meta['caught_by']=fn_.get('where','')
    else:
        meta['quick']='missed at first; caught after strengthening'
        meta['strengthened']=strengthened.get(id,'')
        meta['caught_by']=fn_.get('where','')
    meta['final_check']=fn_.get('check','?')
    meta['suite']=fi.get('suite','?')
    demo='fails with the change, passes without (./seedtest)' if fi.get('dw')=='FAIL' and fi.get('dwo')=='pass' else 'with=%s without=%s'%(fi.get('dw'),fi.get('dwo'))
    meta['demo']=demo
    meta['source']='independent sub-agent (round 5) given the property text, a category list (a)-(m) and one-line descriptions of earlier changes'
    meta['ran']='./seedtest /tmp/mut-out/%s %s --suite; final pass ./seedtest ... %s --no-demo'%(id,id.split('-')[0],fn_.get('cid',id.split('-')[0]))
    json.dump(meta,open(os.path.join(dst,'meta.json'),'w'),indent=1,ensure_ascii=False)
    print(id, meta['quick'][:30], '|', meta['final_check'], '|', meta['caught_by'][:50])
