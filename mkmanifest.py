#!/usr/bin/env python3
"""Regenerates MANIFEST.json from the table below (run after adding a property package)."""
import json, os, subprocess

VERIF = os.path.dirname(os.path.abspath(__file__))

CLAIMS = {
    "C01": dict(
        technique="exhaustive enumeration of local lattice neighbourhoods + random property-based testing (rapid) with topology / winding-number validity oracle",
        text="Exploration. Every solid whose set bits fit a 2x2x2, 3x2x2 or 3x3x2 block (all three orientations) is meshed through the public API and checked for closedness, orientation, single vertex fans and winding number 1/0 at contained/excluded lattice points (thorough: all 786432 blocks; quick: every 13th); all 3x3 and 4x4 blocks for marching squares, all 4x4 bitmaps; plus random lattices, CSG trees and spacings through every API variant and random valid parameters of the other mesh generators.",
        note="Trusted: the harness topology/winding oracles (kit/geom.go), Go == as vertex identity (as the library documents). Exhaustiveness is over lattice classifications up to 3x3x2 neighbourhoods, which determine all triangles around any mesh vertex; larger-scale interactions are sampled, not enumerated.",
        design="3/C01"),
    "C02": dict(
        technique="property-based testing (rapid) with a lattice-relation invariant oracle: winding numbers, vertex/edge bijection, observed bisection brackets, perturbed exact crossing counts",
        text="Exploration. Random CSG trees (thin features), trilinear random fields and lattice solids at random spacings and search iteration counts: the marching-cubes/squares lattice is observed through a recording solid; every lattice point must have winding number 1/0 as the solid says, the distinct vertices must be in bijection with the sign-changing lattice edges and lie strictly inside them, the two closest evaluated points around each vertex must be classified differently and be no farther apart than spacing/2^iterations, interior points must be contained. Dual contouring with clipping over NoJitter/MaxGos/BufferSize/CubeMargin/TriangleMode/L2Penalty/SingularValueEpsilon: each lattice edge is crossed exactly once iff its ends differ (perturbed exact crossing test), with the normal pointing to the excluded end; one vertex per active cell, inside the cell by the margin; interior points contained and one per active edge.",
        note="Trusted: harness oracles (kit.Winding3/2, kit.AxisCrossings); the dual-contouring lattice is obtained from the verif hook (newDcCubeLayout), so a change of lattice placement is followed automatically. With Repair on only the interior-point clauses are asserted (repair is documented as best effort).",
        design="3/C02"),
    "C04": dict(
        technique="property-based testing (rapid): pointwise boolean reference model, permutation metamorphic relation, stateful box-set model",
        text="Exploration. Operand lists (1-6 operands: primitives, nested CSG trees, exact duplicates; 2D and 3D) x 100-300 query points concentrated at seams, box faces and multiples of the smoothing radius: Joined/Intersected/Subtracted/Stacked equal the boolean formula over the operands' own answers; Optimize, SolidMux.Contains/AllContains/IterContains (incl. nil callback) equal the plain form; unions, intersections, SmoothJoin and SmoothJoinV2 are invariant under random permutations; smooth joins contain the union, equal it at radius 0 and for one operand, and add only points within the radius of two operands. RectSet: random Add/Remove/AddRectSet/RemoveRectSet histories against an occupancy grid, compared at every half-lattice point after every step.",
        note="Trusted: the operands' own Contains/SDF (only the combinators are under test), the occupancy-grid model. Points where an operand claims membership one ulp outside its own box are skipped for the accelerated forms (that is C03's concern). RectSet boundary points whose status differs between 'set minus' and 'union of remaining boxes' readings are skipped.",
        design="3/C04"),
    "C05": dict(
        technique="property-based testing (rapid): inverse round trips, bounds enclosure, distance law and conjugacy (metamorphic) against the harness's own affine arithmetic",
        text="Exploration. Random transforms (translate, scale, per-axis scale of any signs, well-conditioned matrices incl. reflections, rotations, compositions of 1-4; 2D analogues; AxisSqueeze, AxisPinch, SmartSqueeze): Apply equals the reference affine map, Inverse composes to the identity in both orders within the propagated rounding of the intermediate point, ApplyBounds encloses the images of corner/edge/face/interior box points, ApplyDistance equals the measured distance change; TransformSolid membership, TransformCollider ray parameters / unit normals / nil callback / first hit / ball queries, Transform- and VecScale-metaball fields and distance bounds are conjugate to the original primitive; MarchingCubesConj / SmartSqueeze meshes are closed and have winding number 1/0 well inside/outside the original solid, also for reflecting transforms.",
        note="Trusted: reference affine arithmetic in harness/gen/xforms.go and the primitives' reference distances. Negative uniform Scale is not generated (its ApplyBounds yields min > max, which FuncSolid rejects by documented contract). Rays that are not in general position are skipped and counted.",
        design="3/C05"),
    "C06": dict(
        technique="property-based testing (rapid) against closed-form reference distances (profile reduction, per-axis clamping) and brute force over faces",
        text="Exploration. Random primitives (2D and 3D, arbitrary axes, aspect ratios to 1e3) x query points inside, outside, near the surface, on axes and at centres: sign vs Contains, |SDF| vs the reference distance (1e-9 relative), Lipschitz bound on all point pairs, PointSDF point on the boundary at distance |SDF|, NormalSDF unit and equal to the reference outward normal and to -grad SDF where the nearest point is unique and smooth; MeshToSDF (2D, 3D) against an exhaustive minimum over faces and winding-number sign, FaceSDF/NormalSDF against the unique nearest face; ProfileSDF/ProfilePointSDF against a case-split reference; ColliderToSDF and TransformSDF against the primitive's reference.",
        note="Trusted: reference distances in harness/gen (independent decomposition; calibrated to 5e-14 against the library on 320k queries during design). Normal clauses are only asserted where the reference reports a unique smooth nearest point with margin. The cone-near-axis defect found by this check is repaired (4e168fc); its class is generated again.",
        design="3/C06"),
    "C15": dict(
        technique="property-based round-trip testing (rapid) + native go fuzzing (thorough) with independent format encoders/decoders as second oracle",
        text="Exploration. Meshes (empty, single face, shared/duplicated vertices, huge, float32-subnormal, -0, non-representable coordinates) through binary STL, coloured PLY and segment CSV writers and readers; random PLY headers (zero counts anywhere, every type name and list-length type, three encodings, raw bit-pattern values) through PLYWriter/PLYReader with an independent byte-level check of what reached the underlying writer; harness-written ASCII STL and OFF text variants; OBJ/MTL/3MF exports parsed by the harness (every face once, indices in range, material groups partition by colour).",
        note="Trusted: harness-side encoders/decoders (math/big for decimal numerals). ASCII NaN compared by class; OFF polygon triangle orientation not asserted (documented undefined).",
        design="3/C15"),
    "C07": dict(
        technique="property-based testing (rapid): reference roots of the reference distance along generated rays (sampling + bisection with measured general position), independent ray/triangle and ray/segment intersection, brute force over faces",
        text="Exploration. Primitive colliders (3D, 2D) x rays with origins inside/outside and directions scaled 1e-3..1e3: callback count = returned count = count with nil callback, parameters >= 0, unit normals equal to the reference outward normal on smooth pieces, hit points on the surface, FirstRayCollision = minimum and exists iff count > 0, collision parameters = reference roots of the signed distance along the ray, odd count iff the origin is inside; ball queries and ColliderContains with margins of either sign against the reference distance. Triangles and 2D segments against an independent intersection routine (ray, segment, ball). Mesh colliders (MeshToCollider, BVH, grouped, interpolated normals) against brute force over the faces with parity and face normals; joined, profile, solid-sampling and transformed colliders against their parts / reference / tolerance.",
        note="Trusted: reference distances (gen.Shape3/Shape2.RefSDF) and kit intersection tests. Rays that are not in general position by the stated measurable rule (near-tangency, close roots, origin near the surface, hit near a face edge) are skipped and counted (about 1-2% of rays). The cone-near-axis defect (ball queries) is repaired (4e168fc); its class is generated again.",
        design="3/C07"),
    "C08": dict(
        technique="differential property-based testing (rapid): spatial index vs linear scan over the same objects with the library's own per-object primitive",
        text="Exploration. Object sets with duplicates, coincident bounds, flat boxes, single elements, grid-aligned coordinates (exact ties) x ray/first-hit/ball/segment/box/triangle queries against seven index builds (2D and 3D), mesh distance fields vs the exhaustive minimum, CoordTree nearest/k-nearest/ball/contains/slice vs scan (exact), grouping and BVH construction as pointer-multiset permutations, render3d BVH/Joined/Filtered objects vs a scan.",
        note="Trusted: the per-object primitives (checked separately in C07/C06), the harness re-derivation of the bounding-box prefilters. In the generic-float regime a hit whose own box passes the prefilter only within 1e-9 relative may go either way; on grid inputs comparisons are exact.",
        design="3/C08"),
    "C11": dict(
        technique="property-based testing (rapid): library diagnostics vs exhaustive re-computation of their definitions; repair and nesting against constructed ground truth",
        text="Exploration. Abstract triangle soups (annuli, Moebius bands, tetrahedra plus random faces, signed-zero twins), manifold meshes (nests to depth 5, marching cubes of lattices and CSG) and damaged variants (faces removed/duplicated/flipped, vertices merged, per-face vertex copies jittered), 2D and 3D: NeedsRepair, SingularVertices, InconsistentEdges, Orientable, Manifold, InconsistentVertices equal the harness's edge-count / fan flood-fill / directed-edge definitions exactly; Repair(eps) on the jitter class restores an isomorphic mesh; RepairNormals restores the even-odd orientation and reports the number of flipped faces; RepairNormalsMajority flips the minority of each group; MeshToHierarchy keeps every face once, nests each component under its innermost container and Contains equals the parity of enclosing components.",
        note="Trusted: harness definitions (union-find, flood fill), constructed nesting cross-checked by winding numbers. No degenerate faces; Orientable only when every edge has <= 2 faces; hierarchy inputs re-orient whole loops only in 2D (consistent per-loop orientation is an implicit precondition of the 2D walker).",
        design="3/C11"),
    "C14": dict(
        technique="property-based testing (rapid) + exhaustive enumeration of small bitmap outlines with a cover/disjointness/area validity oracle",
        text="Exploration. Simple polygons by construction (convex, star, zigzag, monotone chains, combs, spirals; colinear runs; any start vertex, direction and rigid placement), regions with holes and nested islands, planar 3D faces in random planes, OFF files with polygonal faces, outlines of all 3x3 and 4x4 bitmaps: output vertices are input vertices, proper triangles lie inside the region, do not overlap, sum to the shoelace area and are clockwise where documented; ProfileMesh is a closed oriented manifold with volume = area x height.",
        note="Trusted: kit polygon predicates with stated tolerances; zero-area triangles across colinear runs are exempt from the containment/overlap clauses. The three defects this check found (ear clipping with a vertex on the ear base, TriangulateFace basis from rounding noise, sliver panic) are repaired in /repo; their input classes are generated again.",
        design="3/C14"),
    "C16": dict(
        technique="fault-injection property-based testing (rapid: every truncation point, single-field corruptions, token-dictionary byte strings) + native go fuzzing (thorough) with a totality oracle",
        text="Exploration. Every prefix of harness-written valid STL/OFF/PLY/CSV files, single-field corruptions (counts, list lengths, indices, type names, removed properties, token edits, byte flips) and dictionary byte soup through ReadSTL/STLReader, ReadOFF/OFFReader, ReadColorPLY, PLYReader/NewPLYHeaderDecode and DecodeCSV under three reader behaviours: no panic, termination (watchdog; row APIs may not return 1e6 rows without consuming input), allocation <= 1 MiB + 64n + 2n^2 measured via TotalAlloc under RLIMIT_AS, and row-count accounting against the bytes present.",
        note="Trusted: Go runtime memory statistics (calibrated, re-measured on excess). The ReadOFF degenerate-polygon panic this check found is repaired (be27299); degenerate polygon faces are generated again.",
        design="3/C16"),
    "C17": dict(
        technique="property-based testing (rapid) with planted solutions, defining equations and recording objectives",
        text="Exploration. Matrices built as Q1*diag(s)*Q2^T with |s| in [0.3,3] (ties, near ties, band-separated): inverses, SVD, eigenvalues, characteristic polynomial, rotations and orthonormal bases against planted factors / defining equations for the numerical and model2d/model3d implementations; least squares against the normal equations; random sparse SPD systems (n <= 60) through the permuted Cholesky factorisation and BiCGSTAB against their stated residuals; polynomials with planted separated real roots and irreducible quadratics (degree 1-8) plus scale-separated quadratics; line/grid/golden-section searches against a recording objective; CanonicalAngle/AngleDist against IEEE remainder; Bezier degree 1-16 against de Casteljau, splitting, polynomial form, inverse lookup and polyline length; SegmentCurve and JoinedCurve against a reference arc-length walk.",
        note="Trusted: reference linear algebra in harness/c17, math/big-free closed forms. Tolerances for SVD/eigen/least squares are tabulated by the multiplicity of the largest cluster (roots of characteristic polynomials are only determined to eps^(1/m)). The four defects this check found (three in Matrix4.SVD, cubic root precision) are repaired in /repo; their input classes are generated again.",
        design="3/C17"),
    "C18": dict(
        technique="property-based testing (rapid) with partition / disc-topology / convex-combination / no-flip / disjointness / inverse-lookup invariants",
        text="Exploration. Closed meshes of genus 0-2, open discs and multi-component meshes (<= 600 faces in the quick tier): chart decomposition assigns every face pointer to exactly one chart, each chart is a connected edge-manifold disc within the requested limits; Floater97 over circle / p-norm / square boundaries with uniform, inverse-chord-length and shape-preserving weights puts boundary vertices where prescribed, interior vertices at the weighted mean of their neighbours, flips no triangle and preserves total area; the automatic atlas maps every face into [0,1]^2 with disjoint chart boxes; MapFn returns the same barycentric point of the corresponding face.",
        note="Trusted: harness topology and barycentric arithmetic. The two defects this check found (stretch minimisation with all-boundary triangles, atlas cells smaller than the border) are repaired in /repo; their input classes are generated again.",
        design="3/C18"),
    "C03": dict(
        technique="property-based testing (rapid): random expression trees over every solid constructor/combinator family x aimed probe points; invariant (reported box) + differential against the underlying definition evaluated from the parts (closed forms, wrapped library parts at bit-identical points, brute force for meshes), with extreme-point pattern searches",
        text="Exploration. Random expression trees (depth <= 4, 2D and 3D mixed through Profile/Revolve/CrossSection/Slice) over 46 families: primitives in arbitrary orientation with aspect ratios to 1e3; Joined (+Optimize, SolidMux) / Intersected (incl. disjoint) / Subtracted / StackSolids / StackedSolid; SmoothJoin / V2; SDFToSolid (zero, positive, admissible negative outsets; primitive, transformed and mesh SDFs); TransformSolid and helpers with every transform kind incl. negative per-axis scales and reflections; Force/Cache/CheckedFuncSolid; collider solids (plain, inset, outset, hollow; primitive, transformed, mesh colliders); MetaballSolid (bare, transformed, per-axis scaled, SDF metaballs; four falloffs); convex polytopes incl. degenerate vertices; bitmaps; every toolbox part of the statement. Every node of every tree is checked: bounds finite with min <= max (construction panics count), no probe point more than 1e-12 of the scale outside a face is contained (shells 1e-12..0.5 of the scale on every face, corners, far points, support points of the primitives, end points of axis-wise extreme-point searches on Contains), and wherever the underlying definition - evaluated by the harness from the parts without the box - puts a point inside by a margin, the point is inside the box and reported contained. 64 k trees per quick run, 1.4 M per thorough run.",
        note="Trusted: closed-form primitive distances and support points in harness/gen and harness/c03, the harness's L1/line/teardrop/conic formulas, kit brute-force mesh distance and winding number; wrapped library parts (transform inverses, SDF/metaball fields, gear profile, height-map interpolation) are used as parts of the definition, evaluated at points bit-identical to the wrapper's. 'Inside by a margin' is a closed-form distance > 1e-9..1e-10 of the size where available, otherwise agreement at the point and at +-margin on every axis. Leaks smaller than 1e-12 of the scale are out of resolution by design (at 1 ulp even Sphere contains points outside its box from rounding of Center-Radius). Negative uniform Scale, Ramp axes outside the wrapped box, gears off the origin axis, unbounded/empty polytopes are not generated (documented or caller-respected preconditions). RevolveSolid is checked against its inner membership test (profile at (rho, t)). The RevolveSolid zero-height-profile panic this check found is repaired (8de599b).",
        design="3/C03 and 7.5"),
    "C12": dict(
        technique="metamorphic property-based testing (rapid): the same solid meshed / rasterised under a drawn list of configurations and compared bit for bit with a single-threaded unfiltered reference; harness-evaluated sufficient precondition for coarse-to-fine",
        text="Exploration. CSG trees, trilinear fields, lattice solids and lattice-aligned box arrangements, 2D and 3D. MarchingCubes / Squares (plain, Search, Interior, Filter, SearchFilter) at GOMAXPROCS 1-16 x conservative filters (always-true, independent exact 'boundary meets box', dilated, exact OR random acceptances) give the identical canonical face multiset, and so does a repetition. MarchingCubesC2F / MarchingSquaresC2F equal the plain search mesh whenever every sign-changing fine cell has a sign-changing coarse lattice edge within the documented dilation, decided by the harness on the observed lattices (a satellite class sits at the edge of the dilation). DualContouring.Mesh / MeshInterior are identical across MaxGos {0,1,2,7} x BufferSize (below the minimum, 4-16 rows, ragged) x GOMAXPROCS for all options including Repair. RasterizeSolidFilter with conservative filters, RasterizeColliderSolid and RasterizeCollider are pixel-identical to the unfiltered RasterizeSolid over scale, subsamples, line width and explicit bounds.",
        note="Trusted: the harness's conservative box predicates (analytic primitive distances, exact lattice and box comparisons) and its exact-float canonicalisation. Goroutine interleavings are varied only through worker counts and repetition - the harness does not own the scheduler (C13 adds the race detector). C2F is decided only where the sufficient precondition holds (about 1% skipped). In the collider raster modes a differing pixel is excused when one of its sample points lies within 1e-9 pixel of the outline (membership there is the sign of a rounding error; 1 case in 12000). The Repair run-to-run non-determinism this check found is repaired (968663e).",
        design="3/C12 and 7.5"),
    "C13": dict(
        technique="property-based testing (rapid) of generated concurrent query histories under the Go race detector, each compared with a sequential run of the same history; internally parallel routines against their single-worker result or reference models",
        text="Exploration. Meshes from library constructors, marching-cubes lattices and triangle soups (2D and 3D) in five index states (fresh, direct, warm, edited, copy) are queried by 2-16 goroutines at GOMAXPROCS 1-8 with per-goroutine lists (Find / Neighbors / VertexSlice / Iterate / SingularVertices and friends; the first queries build the lazy vertex index), likewise colliders, SDFs, solids, hierarchies, UV lookups and render objects derived from one mesh: no race report, every answer equals the sequential run. MarchingCubes / Squares variants, dual contouring (MaxGos / BufferSize, Clip, Repair, interior points), the rasteriser, ray caster / recursive tracer / bidirectional tracer (also 2-3 goroutines sharing one renderer value), KMeans.Iterate / Assign, HeightMap.AddSpheresSDF, the memoising caches and the OBJ builders at several GOMAXPROCS values: no race report, results equal the single-worker result or a reference step / invariant.",
        note="Trusted: the Go race detector (happens-before; executed paths only). The harness does not own the scheduler: schedules are varied by repetition and worker counts, not enumerated, so an interleaving-specific failure on an unexecuted path is out of reach. Renderers always run NumCPU workers; random renderers are held to invariants only. Meshes with zero-length faces get no SDF / normal queries (undefined distances). Regression replays cover the repaired HeightMap race (7c0ada2) and the repaired repair-order non-determinism (968663e).",
        design="3/C13 and 7.5"),
    "C19": dict(
        technique="property-based testing (rapid) with a black-box statistical/numerical oracle: discontinuity-aware Gauss-Legendre cubature of the reported density, chi-square (Wilson-Hilferty tail, effect-size floor) and exact binomial bounds of sampler histograms against it, closed-form Snell/Schlick reference, analytic light surfaces",
        text="Exploration. For Lambert, Phong (alpha 0..1e4, +-diffuse, +-flux correction), HG, Refract (+-Fresnel, index 0.4..2.5), once-nested JoinedMaterial, PhongFocusPoint and SphereFocusPoint (active and both fallbacks), in source and destination mode (own method and generic fallback): the reported density integrates to 1 +- 1e-3; the sampler's histogram on ~100-200 lobe-aligned cells matches it (alarm at z > 6.5 and Pearson divergence above 1e-3); every sample has positive reported density; delta-lobe frequencies match the density's cap masses; BSDF*cos never exceeds 1 in the mean; the Fresnel split equals the cited Schlick formula on both the density and the sampler side, is monotone and tends to 1 at grazing incidence. Area lights (sphere, cylinder, mesh, joined) sample their own surface with outward normals, part and cell frequencies match emitted power, TotalEmission = sum(r+g+b)*area.",
        note="Trusted: the reference lobe model (axes, kinds) is used only for frames, bin edges and the positions of equators and rims; expectations come from the library's own density. The quadrature error is an estimate calibrated by a self-test (harness/c19/selftest_test.go), not a proof. The statistical clauses cannot see divergences below 1e-3 (about 3% rms density error); on the unchanged tree the largest z observed is below 4 against the alarm at 6.5. Directions within 1e-9 of a lobe boundary, delta lobes closer than 5e-3 rad, and critical-angle cases are skipped and counted (< 2%). Focus points are source-mode only (the API has no dest variant).",
        design="3/C19 and 7.5"),
    "C20": dict(
        technique="property-based testing (rapid) with a recording Object/Material oracle (per-pixel mean of exactly the recorded samples), closed-form radiance, independent pinhole/ray-primitive references, and child processes pinned to k CPUs for worker counts",
        text="Exploration. A recording scene identifies each primary ray's pixel with an independent pinhole model and hands out deterministic per-sample radiances; after Render, RenderVariance and RayVariance of RecursiveRayTracer and BidirPathTracer every pixel equals the mean (or unbiased variance) of exactly its recorded samples, every pixel is sampled and written once, sample counts obey NumSamples/MinSamples and early stopping agrees with the documented rule (default, oversaturated, four custom Convergence functions); the same under GOMAXPROCS 1,2,5,16 and in child processes pinned to 1,2,4,5,6 CPUs (the renderers size their pool with NumCPU) with pixel counts below, equal to, a multiple of and above the worker count. Closed forms: emitter enclosures (sphere, box, inward mesh, furnace walls with Cutoff) under all three renderers (statistically for bidir), matte parallelogram and ball under one or two point lights with shadows, optionally inside similarity transforms, BVH or joined objects. Cameras: Caster/Uncaster inversion against the pinhole reference incl. 1-pixel axes, NewCameraAt frames, DirectionalCamera framing of boxes with aspect ratios to 100. Composite objects against brute-force nearest part; transformed spheres and boxes: hit point, ray parameter, inverse-transpose normal, bounds.",
        note="Trusted: the pinhole reading (longer side spans the field of view, pixel centres on a (W-1)x(H-1) grid), the Lambert and PointLight formulas transcribed from docs and source. Pixels within 1e-6 of a silhouette, edge or terminator are skipped; the bidir ball term is statistical with a 2.5% effect floor. FocusPoints, ParticipatingMedium, non-Lambert materials and image I/O are outside the check. If taskset/CPU affinity is unavailable the worker-count clause counts a skip. The three defects this check found (DirectionalCamera accepting corners behind the camera, MatrixMultiply normals, NaN rays for 1-pixel axes) are repaired in /repo.",
        design="3/C20 and 7.5"),
    "C09": dict(
        technique="model-based (stateful) property testing with rapid: operation histories against a reference face list / Go map",
        text="Exploration. Random histories (<= 45 steps) of Add/Remove/AddMesh/Copy/DeepCopy/Translate/Scale/MapCoords (merging)/Transform/InvertNormals over up to four simultaneously live mesh objects (a copy and its source both stay alive and are re-checked after every step), interleaved with queries that build the lazy vertex index at arbitrary moments, for 2D and 3D meshes, compared after every step with a brute-force model over the harness's own list of face pointers; histories over all six coordinate/edge map types of both packages against a Go map keyed by the same type, with hash-colliding and signed-zero keys; and outputs of the library's in-place editors (marching-cubes search incl. lattice-aligned boxes bisected until vertices merge, FlattenBase, EliminateEdges, decimation, dual contouring with repair) compared with a fresh mesh of their faces, also after further edits.",
        note="Trusted: the reference model in harness/c09 (brute force over face lists), Go map semantics. Neighbors is only queried with non-degenerate faces (no agreed meaning otherwise). Hash collisions are produced black-box by floating-point absorption, which depends on the hash being a linear form in the coordinates.",
        design="3/C09"),
}

NOT_YET = "package exists (harness/c10) but is still being completed and triaged in this session; nothing is claimed for it yet"


def main():
    props = [json.loads(l) for l in open(os.path.join(VERIF, "properties.jsonl"))]
    checks, na = [], []
    for p in props:
        pid = p["id"]
        if pid in CLAIMS and os.path.isdir(os.path.join(VERIF, "harness", pid.lower())):
            c = CLAIMS[pid]
            checks.append({
                "property_id": pid,
                "quick_cmd": "./check %s --tier quick" % pid,
                "thorough_cmd": "./check %s --tier thorough" % pid,
                "evidence_file": "/verif/evidence/%s.json" % pid,
                "replay_cmd_template": "./check %s --replay {path}" % pid,
                "engine": "rapid-harness",
                "level_claimed": {"category": "exploration", "text": c["text"], "design_ref": "DESIGN.md section " + c["design"]},
                "level_note": c["note"],
                "technique": c["technique"],
            })
        else:
            na.append({"property_id": pid, "reason": NOT_YET})
    hooks_commits = []
    try:
        out = subprocess.run(["git", "-C", "/repo", "log", "--format=%H %s"], capture_output=True, text=True).stdout
        hooks_commits = [l.split()[0] for l in out.splitlines() if " verif hook" in l or l.split(" ", 1)[1].startswith("hook:")]
    except Exception:
        pass
    m = {
        "version": 1,
        "setup_cmd": "./check build",
        "hooks": {
            "guard": "verif",
            "enable": "harness test binaries are built with `go test -c -tags verif` against /repo through a replace directive (harness/go.mod)",
            "baseline_off_cmd": "cd /repo && GOFLAGS=-mod=mod go test -vet=off -count=1 -timeout 25m ./...",
            "source_commits": hooks_commits,
            "add_only": True,
        },
        "engines": [{
            "name": "rapid-harness", "path": "/verif/harness",
            "serves_properties": [c["property_id"] for c in checks],
            "kind_free_text": "Go property-based testing (pgregory.net/rapid v1.3.0) + exhaustive enumeration of finite sub-spaces + native go fuzzing for byte decoders; python3 driver ./check shards, merges statistics, replays saved cases and writes evidence",
        }],
        "checks": checks,
        "not_applicable": na,
        "notes": "Driver: ./check <id> [--tier quick|thorough] [--replay file]. Known findings: known_findings.json (+ replays/<id>/). Design and per-property oracles: DESIGN.md.",
    }
    json.dump(m, open(os.path.join(VERIF, "MANIFEST.json"), "w"), indent=1)
    print("claimed:", [c["property_id"] for c in checks])


if __name__ == "__main__":
    main()
