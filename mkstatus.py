#!/usr/bin/env python3
"""Regenerates the machine-written tables of DESIGN.md (between the AUTO markers) from MANIFEST.json, evidence/,
known_findings.json and seeded/*/meta.json.  Run after mkmanifest.py and after evidence has been refreshed."""
import glob, json, os, re

VERIF = os.path.dirname(os.path.abspath(__file__))


def status_table():
    man = json.load(open(os.path.join(VERIF, "MANIFEST.json")))
    claimed = {c["property_id"]: c for c in man["checks"]}
    na = {n["property_id"]: n["reason"] for n in man.get("not_applicable", [])}
    rows = ["| id | status | clauses (cases in the last quick run) | evaluations | distinct non-trivial | active known findings |",
            "|----|--------|------------------------------------------|-------------|----------------------|-----------------------|"]
    for i in range(1, 21):
        pid = "C%02d" % i
        evp = os.path.join(VERIF, "evidence", pid + ".json")
        if pid in claimed and os.path.exists(evp):
            ev = json.load(open(evp))
            cov = ev["coverage"]
            cl = ", ".join("%s %d%s" % (re.sub(r"^C\d+/", "", k), v["evaluations"], " (exhaustive)" if v.get("exhaustive") and "enum" in k else "")
                           for k, v in cov["clauses"].items())
            rows.append("| %s | claimed (%s tier evidence) | %s | %d | %d | %s |" % (pid, ev["tier"], cl, cov["evaluations"], cov["distinct_nontrivial"],
                        ", ".join(cov.get("known_findings_active", [])) or "—"))
        else:
            rows.append("| %s | not claimed | %s | | | |" % (pid, na.get(pid, "")))
    return "\n".join(rows)


def findings_table():
    kf = json.load(open(os.path.join(VERIF, "known_findings.json")))["findings"]
    rows = ["| id | property | status | commit | what |", "|----|----------|--------|--------|------|"]
    for f in kf:
        rows.append("| %s | %s | %s | %s | %s |" % (f["id"], f["property"], f["status"], (f.get("commit") or "")[:7], f["what"].replace("|", "\\|").replace("\n", " ")))
    return "\n".join(rows)


def seeded_table():
    rows = ["| seeded change | property | what it changes | needs to manifest | suite | quick | thorough | caught by |",
            "|---------------|----------|-----------------|-------------------|-------|-------|----------|-----------|"]
    for mp in sorted(glob.glob(os.path.join(VERIF, "seeded", "*", "meta.json"))):
        m = json.load(open(mp))
        rows.append("| %s | %s | %s | %s | %s | %s | %s | %s |" % (os.path.basename(os.path.dirname(mp)), m.get("property", ""), m.get("what", "").replace("|", "\\|"),
                    m.get("needs", "").replace("|", "\\|"), m.get("suite", ""), m.get("quick", ""), m.get("thorough", ""), m.get("caught_by", "").replace("|", "\\|")))
    return "\n".join(rows)


def main():
    p = os.path.join(VERIF, "DESIGN.md")
    s = open(p).read()
    for name, fn in (("STATUS", status_table), ("FINDINGS", findings_table), ("SEEDED", seeded_table)):
        a, b = "<!-- AUTO:%s -->" % name, "<!-- /AUTO:%s -->" % name
        if a in s and b in s:
            s = s[:s.index(a) + len(a)] + "\n" + fn() + "\n" + s[s.index(b):]
    open(p, "w").write(s)


if __name__ == "__main__":
    main()
